"""C05 — condition variables: atomic release-and-wait, exact wakeups, no spurious wakeup
(history conformance with LTS Conc/CondMutex.v, which carries the C04 mutex LTS inside)."""
import vlib, hist

ID = "C05"


def gen_race(rng):
    """timed waiters with near deadlines on several streams against a coordinator that ticks and signals at once:
    exercises the locked timeout test with both verdicts (signalled between the clock read and the test)"""
    nes = rng.choice([2, 3])
    lines = ["SEED %d" % rng.randint(1, 10**9), "NES %d" % nes, "WATCHDOG 10", "VCLOCK 1",
             "PAIR 0 %s %s" % (rng.choice(["plain", "rec", "static"]), rng.choice(["dyn", "static"]))]
    nw = rng.randint(2, 5)
    for t in range(nw):
        kind = rng.choice("UUUE")
        ds = sorted(rng.sample(range(1, 12), rng.randint(2, 4)))
        lines.append("THREAD %d %s %d : %s" % (t, kind, rng.randint(1, nes), " ".join("T0:%d" % d for d in ds)))
    toks = ["Z%d" % rng.randint(1, 3)]
    for _ in range(rng.randint(6, 12)):
        toks += ["K1", rng.choice(["N0", "N0", "P0", "n0"])]
    toks.append("C0")
    lines.append("THREAD %d %s 0 : %s" % (nw, rng.choice("UE"), " ".join(toks)))
    return "\n".join(lines) + "\n"


def gen_scenario(rng, big=False):
    if rng.random() < 0.15:
        return gen_race(rng)
    nes = rng.choice([0, 1, 2, 3])
    npair = rng.choice([1, 1, 2, 3])
    mk = [rng.choice(["plain", "plain", "rec", "static", "static_rec"]) for _ in range(npair)]
    ck = [rng.choice(["dyn", "dyn", "static"]) for _ in range(npair)]
    nthr = rng.randint(3, 8 if big else 6)
    lines = ["SEED %d" % rng.randint(1, 10**9), "NES %d" % nes, "WATCHDOG 10", "VCLOCK 1"]
    for i in range(npair):
        lines.append("PAIR %d %s %s" % (i, mk[i], ck[i]))
    style = rng.choice(["mixed", "mixed", "signal", "bcast", "timed"])

    def deadline():
        return rng.choice([-5, -1, 0, 1, 2, 3, 5, 8, 500, 900])

    def consumer(i):
        if style == "timed" or rng.random() < 0.35:
            return "T%d:%d" % (i, deadline())
        return "A%d" % i

    def producer(i):
        if style == "signal":
            return rng.choice(["P%d", "p%d"]) % i
        if style == "bcast":
            return "B%d:%d" % (i, rng.randint(1, 3))
        return rng.choice(["P%d" % i, "p%d" % i, "B%d:%d" % (i, rng.randint(0, 3)), "P%d" % i])

    # thread order = creation order: consumers first, then producers / noise, the closer last
    roles = []
    for t in range(nthr - 1):
        roles.append(rng.choice(["cons", "cons", "cons", "prod", "prod", "both", "noise", "task"]))
    roles.sort(key=lambda r: {"cons": 0, "both": 1, "noise": 1, "task": 1, "prod": 2}[r])
    roles.append("closer")
    for t, role in enumerate(roles):
        es = rng.randint(0, nes)
        if role == "closer":
            # closer / clock coordinator: finally releases every waiter of every pair
            kind = rng.choice("UE")
            toks = []
            for _ in range(rng.randint(2, 7)):
                toks.append(rng.choice(["Z2", "Z4", "K1", "K2", "K3", "Z1", "N%d" % rng.randrange(npair)]))
                if toks[-1][0] == "K" and rng.random() < 0.5:
                    toks.append("N%d" % rng.randrange(npair))      # tick, then signal at once: races with the locked timeout test
            order = list(range(npair))
            rng.shuffle(order)
            for i in order:
                toks += ["K%d" % rng.randint(1, 4)] * rng.choice([0, 1]) + ["C%d" % i]
            toks += ["n%d" % rng.randrange(npair)] * rng.choice([0, 1])
        elif role == "task":
            kind = "T"
            toks = []
            for _ in range(rng.randint(1, 4)):
                i = rng.randrange(npair)
                toks.append(rng.choice(["E%d", "N%d", "n%d", "N%d"]) % i)
        else:
            kind = rng.choice("UUUEE")
            toks = []
            if role in ("prod", "noise") and rng.random() < 0.7:
                toks.append(rng.choice(["Z1", "Z2", "Z3", "Y"]))
            for _ in range(rng.randint(1, 8 if big else 5)):
                i = rng.randrange(npair)
                r = rng.random()
                if r < 0.15:
                    toks.append(rng.choice(["Y", "W", "K1", "K2", "Z1"]))
                    if toks[-1][0] == "K" and rng.random() < 0.5:
                        toks.append("N%d" % i)
                elif r < 0.20 and npair >= 2:
                    j = rng.choice([x for x in range(npair) if x != i])
                    toks.append("X%d:%d" % (i, j))
                elif role == "cons" or (role == "both" and r < 0.6):
                    toks.append(consumer(i))
                elif role == "prod" or role == "both":
                    toks.append(producer(i))
                else:
                    toks.append(rng.choice(["N%d", "n%d", "M%d", "M%d"]) % i)
        lines.append("THREAD %d %s %d : %s" % (t, kind, es, " ".join(toks)))
    return "\n".join(lines) + "\n"


def gen(rng, tier):
    n = 220 if tier == "quick" else 2500
    return [gen_scenario(rng, big=(tier != "quick" and i % 3 == 0)) for i in range(n)], {"scenarios": n}


def run(tier, seed, replay):
    return hist.run_history_property(
        ID, "Properties_C05.v", ["Properties_C05.vo", "Extract_C05.vo"], "c05", "h_c05.c", gen, tier, seed, replay=replay,
        rule="seeded scenarios in monitor discipline (token counter + closed flag changed under the mutex, waiters loop while "
             "the predicate is false): 3-8 callers (ULTs on 1-4 streams, external pthreads, tasklets), 1-3 (mutex, cond) pairs "
             "(plain/recursive/static mutexes, dynamic/static conds), wait / timedwait under the virtual clock with deadlines in "
             "the past, near and far / signal inside and outside the mutex / broadcast / naked signals / wrong-mutex waits; every "
             "scenario ends with a closing broadcast per pair; every history replayed through the extracted LTS; non-trivial = all",
        extra_assumptions=["blocking (futex / context switch) is abstracted to program points; context-switch correctness is C02/C11",
                           "the cond wait list is modelled as a list of (waiter, timed); its pointer-level representation and the "
                           "unlink on timeout are C19 (DS/Waitlist.v)",
                           "virtual clock: the deadline test reads a monotone clock without a record; the TIMEOUT record is checked "
                           "against the clock value at its position in the history (sound for a monotone clock)"])
