"""C05 — condition variables: atomic release-and-wait, exact wakeups, no spurious wakeup
(history conformance with LTS Conc/CondMutex.v, which carries the C04 mutex LTS inside)."""
import vlib, hist

ID = "C05"
MANIFEST = {
    "text": "Theorems (Coq; LTS Conc/CondMutex.v = one ABTI_cond + the mutex it is bound to, whose mutex component IS a state of the "
            "C04 LTS and moves only by Mutex.step; labels = the ABT_VERIF hook records; every number of ULT/external/tasklet callers, "
            "every interleaving, any clock): the mutex inside every reachable state is a reachable C04 state (all C04 theorems "
            "reused, not re-proved); atomic release-and-wait (a caller inside wait/timedwait that no longer owns the mutex holds the "
            "cond lock or is already queued; no SIGNAL/WAKE/BCAST step is enabled between its mutex release and its enqueue; a "
            "signaller owning the mutex and the cond lock finds every waiting caller queued); SIGNAL dequeues exactly the head or "
            "nobody, a broadcast wakes exactly the callers queued when it took the cond lock, in order; a wait returns ABT_SUCCESS "
            "only with a credit given by a SIGNAL/WAKE since its enqueue and consumes it, ABT_ERR_COND_TIMEDOUT only for a "
            "timedwait, without credit and after the test now>=deadline; the return step ends a complete ABTI_mutex_lock program "
            "started after the wake-up (caller = lock-word holder); #SIGNAL/WAKE records naming x = #successful returns of x (+1 iff x "
            "is past the wait list and about to return). Tie: real executions in monitor discipline (ULT/external/tasklet callers, "
            "1-4 streams, timed waits under a virtual clock, signal/broadcast/naked signals/wrong-mutex waits) are recorded as a "
            "totally ordered history of atomic actions and replayed through the extracted step function; independent monitors on the "
            "raw history (returns<=credits per waiter, lock-word owner at wait return, TIMEDOUT vs clock, FIFO wake order, lost "
            "update, stuck caller). Fair termination is not claimed; one LTS instance = one cond + its mutex (two conds sharing a "
            "mutex are not replayed together).",
    "note": "Trusted: Coq kernel; extraction; the LTS abstraction (spinlock-protected sections as atomic steps, SC memory); hook "
            "placement and the trace lock; blocking (futex, context switch) abstracted to program points (C02/C11); the cond wait "
            "list is a list of (waiter, timed) - its pointer-level representation and the unlink on timeout are C19 (DS/Waitlist.v); "
            "the clock read of the deadline test leaves no record and is checked at the TIMEOUT record (sound for a monotone "
            "clock). API contract assumed by the model: wait is called by the mutex owner, recursive mutex locked once. Observation: "
            "p_waiter_mutex is never reset, so a cond stays bound to its first mutex for life (later waits with another mutex get "
            "ABT_ERR_INV_MUTEX even when nobody waits) - modelled as is.",
    "technique": "Coq proof of an inductive invariant over a parametric LTS composed with the C04 mutex LTS (projection lemma) + "
                 "history conformance (recorded hook events replayed by the extracted step function)",
}


def gen_race(rng):
    """timed waiters with near deadlines on several streams against a coordinator that ticks and signals at once:
    exercises the locked timeout test with both verdicts (signalled between the clock read and the test)"""
    nes = rng.choice([2, 3])
    lines = ["SEED %d" % rng.randint(1, 10**9), "NES %d" % nes, "WATCHDOG 10", "VCLOCK 1",
             "PAIR 0 %s %s" % (rng.choice(["plain", "rec", "static"]), rng.choice(["dyn", "static"]))]
    if rng.random() < 0.5:
        # one pool shared by the secondary streams: a polling / blocked ULT continues on another stream
        lines.insert(2, "SHARED 1")
    nw = rng.randint(2, 5)
    for t in range(nw):
        kind = rng.choice("UUUE")
        ds = sorted(rng.sample(range(1, 12), rng.randint(2, 4)))
        lines.append("THREAD %d %s %d : %s" % (t, kind, rng.randint(1, nes), " ".join("T0:%d" % d for d in ds)))
    toks = ["Z%d" % rng.randint(1, 3)]
    for _ in range(rng.randint(6, 12)):
        toks += ["K1", rng.choice(["N0", "N0", "P0", "n0"])]
    toks.append("C0")
    lines.append("THREAD %d %s 0 : %s" % (nw, rng.choice("UE"), " ".join(toks)))
    return "\n".join(lines) + "\n"


def gen_storm(rng):
    """several external (futex) waiters against a burst of signals: every signal wakes all sleepers, the non-chosen ones
    re-check under the cond lock (program points CEW <-> CES, CER -> CEWr)"""
    nes = rng.choice([0, 1])
    lines = ["SEED %d" % rng.randint(1, 10**9), "NES %d" % nes, "WATCHDOG 10", "VCLOCK 1",
             "PAIR 0 %s %s" % (rng.choice(["plain", "rec", "static"]), rng.choice(["dyn", "static"]))]
    nw = rng.randint(3, 4)
    for t in range(nw):
        lines.append("THREAD %d E 0 : %s" % (t, " ".join(["A0"] * rng.randint(3, 6))))
    toks = ["Z1"] + [rng.choice(["P0", "P0", "P0", "N0", "p0"]) for _ in range(rng.randint(12, 28))] + ["Z2", "C0"]
    lines.append("THREAD %d %s 0 : %s" % (nw, rng.choice("UE"), " ".join(toks)))
    return "\n".join(lines) + "\n"


def gen_scenario(rng, big=False):
    r0 = rng.random()
    if r0 < 0.15:
        return gen_race(rng)
    if r0 < 0.22:
        return gen_storm(rng)
    nes = rng.choice([0, 1, 2, 3])
    npair = rng.choice([1, 1, 2, 3])
    mk = [rng.choice(["plain", "plain", "rec", "static", "static_rec"]) for _ in range(npair)]
    ck = [rng.choice(["dyn", "dyn", "static"]) for _ in range(npair)]
    nthr = rng.randint(3, 8 if big else 6)
    lines = ["SEED %d" % rng.randint(1, 10**9), "NES %d" % nes, "WATCHDOG 10", "VCLOCK 1"]
    if nes >= 2 and rng.random() < 0.4:
        lines.insert(2, "SHARED 1")
    for i in range(npair):
        lines.append("PAIR %d %s %s" % (i, mk[i], ck[i]))
    style = rng.choice(["mixed", "mixed", "signal", "bcast", "timed"])

    def deadline():
        return rng.choice([-5, -1, 0, 1, 2, 3, 5, 8, 500, 900])

    def consumer(i):
        if style == "timed" or rng.random() < 0.35:
            return "T%d:%d" % (i, deadline())
        return "A%d" % i

    def producer(i):
        if style == "signal":
            return rng.choice(["P%d", "p%d"]) % i
        if style == "bcast":
            return "B%d:%d" % (i, rng.randint(1, 3))
        return rng.choice(["P%d" % i, "p%d" % i, "B%d:%d" % (i, rng.randint(0, 3)), "P%d" % i])

    # thread order = creation order: consumers first, then producers / noise, the closer last
    roles = []
    for t in range(nthr - 1):
        roles.append(rng.choice(["cons", "cons", "cons", "prod", "prod", "both", "noise", "task"]))
    roles.sort(key=lambda r: {"cons": 0, "both": 1, "noise": 1, "task": 1, "prod": 2}[r])
    roles.append("closer")
    for t, role in enumerate(roles):
        es = rng.randint(0, nes)
        if role == "closer":
            # closer / clock coordinator: finally releases every waiter of every pair
            kind = rng.choice("UE")
            toks = []
            for _ in range(rng.randint(2, 7)):
                toks.append(rng.choice(["Z2", "Z4", "K1", "K2", "K3", "Z1", "N%d" % rng.randrange(npair)]))
                if toks[-1][0] == "K" and rng.random() < 0.5:
                    toks.append("N%d" % rng.randrange(npair))      # tick, then signal at once: races with the locked timeout test
            order = list(range(npair))
            rng.shuffle(order)
            for i in order:
                toks += ["K%d" % rng.randint(1, 4)] * rng.choice([0, 1]) + ["C%d" % i]
            toks += ["n%d" % rng.randrange(npair)] * rng.choice([0, 1])
        elif role == "task":
            kind = "T"
            toks = []
            for _ in range(rng.randint(1, 4)):
                i = rng.randrange(npair)
                toks.append(rng.choice(["E%d", "N%d", "n%d", "N%d"]) % i)
        else:
            kind = rng.choice("UUUEE")
            toks = []
            if role in ("prod", "noise") and rng.random() < 0.7:
                toks.append(rng.choice(["Z1", "Z2", "Z3", "Y"]))
            for _ in range(rng.randint(1, 8 if big else 5)):
                i = rng.randrange(npair)
                r = rng.random()
                if r < 0.15:
                    toks.append(rng.choice(["Y", "W", "K1", "K2", "Z1"]))
                    if toks[-1][0] == "K" and rng.random() < 0.5:
                        toks.append("N%d" % i)
                elif r < 0.20 and npair >= 2:
                    j = rng.choice([x for x in range(npair) if x != i])
                    toks.append("X%d:%d" % (i, j))
                elif role == "cons" or (role == "both" and r < 0.6):
                    toks.append(consumer(i))
                elif role == "prod" or role == "both":
                    toks.append(producer(i))
                else:
                    toks.append(rng.choice(["N%d", "n%d", "M%d", "M%d"]) % i)
        lines.append("THREAD %d %s %d : %s" % (t, kind, es, " ".join(toks)))
    return "\n".join(lines) + "\n"


def gen(rng, tier):
    n = 220 if tier == "quick" else 8000
    return [gen_scenario(rng, big=(tier != "quick" and i % 3 == 0)) for i in range(n)], {"scenarios": n}


def run(tier, seed, replay):
    return hist.run_history_property(
        ID, "Properties_C05.v", ["Properties_C05.vo", "Extract_C05.vo"], "c05", "h_c05.c", gen, tier, seed, replay=replay,
        rule="seeded scenarios in monitor discipline (token counter + closed flag changed under the mutex, waiters loop while "
             "the predicate is false): 3-8 callers (ULTs on 1-4 streams, external pthreads, tasklets), 1-3 (mutex, cond) pairs "
             "(plain/recursive/static mutexes, dynamic/static conds), wait / timedwait under the virtual clock with deadlines in "
             "the past, near and far / signal inside and outside the mutex / broadcast / naked signals / wrong-mutex waits; every "
             "scenario ends with a closing broadcast per pair; every history replayed through the extracted LTS; non-trivial = all",
        extra_assumptions=["a watchdog stop counts as a failure of this property only if an unfinished caller is blocked on the "
                           "objects under test with nothing left to wake it (queued in the cond after the closing thread finished, "
                           "or queued in the mutex with lock word and waiter_lock free); otherwise it is reported as starved",
                           "blocking (futex / context switch) is abstracted to program points; context-switch correctness is C02/C11",
                           "the cond wait list is modelled as a list of (waiter, timed); its pointer-level representation and the "
                           "unlink on timeout are C19 (DS/Waitlist.v)",
                           "virtual clock: the deadline test reads a monotone clock without a record; the TIMEOUT record is checked "
                           "against the clock value at its position in the history (sound for a monotone clock)"])
