"""C03 — decided on the scheduler LTS (see tools/schedprops.py, coq/Conc/Sched*.v)."""
import schedprops, schedgen
ID = "C03"
COQ_TARGETS = schedprops.SCHED_TARGETS + ["Extract_Sched.vo"]
DRIVERS = ["sched"]


def gen_migrate_ss(rng, big=False):
    return schedgen.gen_migrate(rng, big, self_suspend=True)


FAMS = [schedgen.gen_join, schedgen.gen_basic, schedgen.gen_join_shared]
NAME_RE = r"^(C03_|C12_free_once)"
MANIFEST = {
    "text": "Theorems (Coq, every number of units/pools, every interleaving of the scheduler LTS whose labels are the ABT_VERIF hook "
            "records): join/free return only after a state read that returned TERMINATED (and then the unit is terminated); p_link is written once, by the one registered joiner, and by a ULT joiner only after its own BLOCKED store; the terminating side cannot enter the exit callback / store TERMINATED while its linked ULT joiner is still blocked and unwoken (no lost wake-up), a futex wake goes only to a non-yieldable joiner; in every handshake state the C code's next action is enabled and decreases a measure (can-always-finish); free happens once and only after TERMINATED. Tie: generated scenarios run on the real runtime (1-4 streams, FIFO/FIFO_WAIT/RANDWS pools, all predefined "
            "schedulers, ULTs/tasklets/external threads); every recorded atomic action must be enabled in the model with the recorded "
            "values (state loads, request bits, num_blocked, queue emptiness); API-level monitors (entry counts, arguments, return codes, "
            "pool sizes at quiescence, join/xstream-join postconditions, watchdog) run on every execution.",
    "note": schedprops.NOTE,
    "technique": schedprops.TECH,
}


def run(tier, seed, replay):
    return schedprops.run(ID, NAME_RE, FAMS, tier, seed, replay,
                          rule="seeded scenario families %s; every history replayed through the extracted LTS; non-trivial = all (each scenario has >= 1 unit)" % [f.__name__ for f in FAMS])
