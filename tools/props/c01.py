"""C01 — decided on the scheduler LTS (see tools/schedprops.py, coq/Conc/Sched*.v)."""
import schedprops, schedgen
ID = "C01"
COQ_TARGETS = schedprops.SCHED_TARGETS + ["Extract_Sched.vo"]
DRIVERS = ["sched"]


def gen_migrate_ss(rng, big=False):
    return schedgen.gen_migrate(rng, big, self_suspend=True)


FAMS = [schedgen.gen_basic, schedgen.gen_join, schedgen.gen_lifecycle, schedgen.gen_steal, schedgen.gen_spsc, schedgen.gen_mig_switch, schedgen.gen_replace_keep]
NAME_RE = r"^(C01_|SchedPlace_invariant|C07_pop)"
MANIFEST = {
    "text": "Theorems (Coq, every number of units/pools, every interleaving of the scheduler LTS whose labels are the ABT_VERIF hook "
            "records): every created work unit is in exactly one place (in exactly one pool queue exactly once, or popped, running, inside a callback, blocked, being resumed, terminated), its function is entered at most once per incarnation and only while RUNNING, a popped unit is in no pool (cannot be popped twice), pops take the head (or tail) of the queue and report empty only on an empty queue. Tie: generated scenarios run on the real runtime (1-4 streams, FIFO/FIFO_WAIT/RANDWS pools, all predefined "
            "schedulers, ULTs/tasklets/external threads); every recorded atomic action must be enabled in the model with the recorded "
            "values (state loads, request bits, num_blocked, queue emptiness); API-level monitors (entry counts, arguments, return codes, "
            "pool sizes at quiescence, join/xstream-join postconditions, watchdog) run on every execution.",
    "note": schedprops.NOTE,
    "technique": schedprops.TECH,
}


def run(tier, seed, replay):
    return schedprops.run(ID, NAME_RE, FAMS, tier, seed, replay,
                          rule="seeded scenario families %s; every history replayed through the extracted LTS; non-trivial = all (each scenario has >= 1 unit)" % [f.__name__ for f in FAMS])
