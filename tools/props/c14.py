"""C14 — user-defined pools: unit <-> work-unit mapping (unit.c, abti_unit.h, pool.c)."""
import itertools
import vlib

ID = "C14"
MANIFEST = {
    "text": "Theorems (Coq, unbounded): the 256-bucket unit table of unit.c (exact hash_index, tombstone reuse under the bucket "
            "lock, head insertion, failing malloc) refines a finite map for every op sequence and every handle set, colliding "
            "buckets included, and no 'get()/unmap() must succeed' assertion fires (C14_lookup, C14_hash_index); the five-way "
            "association functions of abti_unit.h keep table, (unit,pool) fields and the create_unit/free_unit log consistent: "
            "each handle created once per association, freed once by its pool, never mentioned after its free, live handles = "
            "units of work units associated with user pools (C14_create_free_balanced, C14_all_freed, C14_get_thread), extended "
            "to the public API with push/pop log entries, seeded pop policies and yield/migrate bodies (C14_api_balanced, "
            "C14_pop_translates); same-handle moves - a work unit moved directly between two user pools whose create_unit "
            "return the handle it already has (unit = (ABT_unit)thread) - are inside the contract: map(u) while u is mapped "
            "then unmap(u) leaves the table representing what it represented, lookups of u give the work unit in between, the "
            "log gains one create_unit (new pool) and one free_unit (old pool), the bucket ends with exactly one cell for u "
            "(C14_same_handle_remap, C14_same_handle_move); a failed create_unit/map leaves table and fields unchanged in ANY "
            "state (C14_failure_atomic); LTS with one step per shared access, any number of threads: a lock-free get "
            "overlapping maps/unmaps of other units returns the right work unit and no assertion can fire "
            "(C14_concurrent_lookup, C14_concurrent_no_assert). "
            "Tie: models extracted to OCaml and compared on every run with (T, W) an ASan/UBSan white-box copy of unit.c + the "
            "inline functions of abti_unit.h with malloc-failure injection and (A) the -O2 library through the public API "
            "(built-in, ABT_pool_user_def and legacy ABT_pool_def pools, handles from a PROT_NONE arena chosen to collide; "
            "about a third of the A cases use one fixed handle per work unit in every pool), results + call log as observables "
            "and the bucket chains as white-box dump; multi-stream create/migrate/free storms with a lookup-checker thread "
            "(half of the migrations keep the handle) as monitors.",
    "note": "Trusted: Coq kernel, extraction (ExtrOcamlBasic), the hand-written Gallina models (validated by the differential "
            "harness, not verified against the C text), gcc/glibc. Preconditions made explicit: user handles have bit 0 clear "
            "(hence differ from ABT_UNIT_NULL = 0x7 in this configuration) and create_unit(pool, th) never returns the handle of "
            "ANOTHER live work unit (it may return the handle th itself holds, which can only happen in a user->other-user "
            "move); usage contract of the API ops (no re-association of a work unit that sits in a pool). The call-log "
            "replay accepts a handle that is live in two pools only between the create_unit of such a move and the free_unit "
            "of either pool. The LTS assumes sequential consistency, that p_next is written once before publication (the "
            "release/acquire pair on the bucket head is not checked) and DISTINCT live handles (map(u) starts only when u is "
            "unmapped): a same-handle move overlapping lock-free lookups is covered by the sequential theorems and the storm "
            "monitor only, not by the LTS; the LTS is tied to the code only by the storm monitors (no hooks). "
            "ABT_pool_push_threads (batch; documented FIXME: not failure-atomic across the batch), pop_wait/pop_timedwait "
            "wrappers and the print_all wrappers are not modelled.",
}

# ----------------------------------------------------------------- handles
def hidx(off):
    """unit_get_hash_index on an arena offset (arena base is a multiple of 2^27)"""
    return ((off >> 3) + (off >> 11) + (off >> 19)) & 255


def handles_by_bucket(limit=1 << 22):
    by = {}
    for off in range(8, limit, 8):
        by.setdefault(hidx(off), []).append(off)
    return by


_BY = None


def bucket_handles(b, n, rng=None, odd_align=False):
    """n handles hashing to bucket b (multiples of 8; with odd_align a few are only 2-aligned)"""
    global _BY
    if _BY is None:
        _BY = handles_by_bucket()
    cand = _BY[b]
    hs = cand[:n] if rng is None else rng.sample(cand[:200], n)
    if odd_align:
        hs = [h + (2 * (i % 4)) if hidx(h + 2 * (i % 4)) == b else h for i, h in enumerate(hs)]
    return hs


# ----------------------------------------------------------------- T cases
def gen_t(rng, tier):
    cases = []
    a, b, c = bucket_handles(37, 3)
    d = bucket_handles(38, 1)[0]
    hs = [a, b, c]
    maxlen = 5 if tier == "quick" else 8
    # exhaustive: every valid sequence of length <= maxlen over map(ok)/map(alloc fails)/unmap/get on 3
    # colliding handles
    def rec(seq, mapped, nth):
        # mapped: dict handle -> thread number it was mapped with
        if seq:
            cases.append("T ; " + " , ".join(seq))
        if len(seq) >= maxlen:
            return
        for h in hs:
            if h in mapped:
                m2 = dict(mapped)
                del m2[h]
                rec(seq + ["U %d" % h], m2, nth)
                # a get never changes the state: emitted as a last op only
                cases.append("T ; " + " , ".join(seq + ["G %d" % h]))
                # same-handle move: map(h) with its own thread while h is mapped (the key is in the bucket
                # twice), a lookup in between, unmap(h) (clears the first match); one composite step
                if len(seq) + 3 <= maxlen + 1:
                    rec(seq + ["M %d %d 1" % (h, mapped[h]), "G %d" % h, "U %d" % h], mapped, nth)
                # ... with a failing allocation: succeeds only by reusing a tombstone; h stays mapped either way
                cases.append("T ; " + " , ".join(seq + ["M %d %d 0" % (h, mapped[h]), "G %d" % h]))
            else:
                m2 = dict(mapped)
                m2[h] = nth
                rec(seq + ["M %d %d 1" % (h, nth)], m2, nth + 1)
                # failing allocation: state changes only if a tombstone exists; python does not track that,
                # so such a sequence ends here
                cases.append("T ; " + " , ".join(seq + ["M %d %d 0" % (h, nth)]))
    rec([], {}, 1)
    nexh = len(cases)
    nrand = 600 if tier == "quick" else 20000
    nremap = 0
    for _ in range(nrand):
        nb = rng.choice([1, 1, 2, 3])
        bks = rng.sample(range(256), nb)
        hl = []
        for bk in bks:
            hl += bucket_handles(bk, rng.choice([2, 3, 5, 8]), rng, odd_align=rng.random() < 0.3)
        buckets = {}   # python mirror of the table, only to know whether map(ok=0) succeeds
        mapped = {}
        seq = []
        nth = 1
        for _ in range(rng.choice([4, 8, 16, 32, 64])):
            r = rng.random()
            free = [h for h in hl if h not in mapped]
            if (r < 0.45 and free) or not mapped:
                if not free:
                    continue
                h = rng.choice(free)
                ok = 0 if rng.random() < 0.15 else 1
                bl = buckets.setdefault(hidx(h), [])
                succ = True
                if 0 in bl:
                    bl[bl.index(0)] = h
                elif ok:
                    bl.insert(0, h)
                else:
                    succ = False
                seq.append("M %d %d %d" % (h, nth, ok))
                if succ:
                    mapped[h] = nth
                nth += 1
            elif r < 0.62:
                h = rng.choice(list(mapped))
                bl = buckets[hidx(h)]
                bl[bl.index(h)] = 0
                del mapped[h]
                seq.append("U %d" % h)
            elif r < 0.78:
                # same-handle move: map(h, its thread) while h is mapped, [get], unmap(h)
                h = rng.choice(list(mapped))
                ok = 0 if rng.random() < 0.2 else 1
                bl = buckets[hidx(h)]
                succ = True
                if 0 in bl:
                    bl[bl.index(0)] = h
                elif ok:
                    bl.insert(0, h)
                else:
                    succ = False
                seq.append("M %d %d %d" % (h, mapped[h], ok))
                if rng.random() < 0.5:
                    seq.append("G %d" % h)
                if succ:
                    bl[bl.index(h)] = 0      # the first cell with that key
                    seq.append("U %d" % h)
                    nremap += 1
            else:
                seq.append("G %d" % rng.choice(list(mapped)))
        cases.append("T ; " + " , ".join(seq))
    return cases, {"t_exhaustive_len<=%d" % maxlen: nexh, "t_random": nrand, "t_same_key_remap": nremap}


# ----------------------------------------------------------------- association mirror (python)
class Mirror:
    """Mirror of the association state used only to generate valid cases (which handles are live, where the
    threads are).  Not an oracle: expected outputs come from the extracted Coq model."""

    def __init__(self, kinds, stats):
        self.kinds = kinds
        self.thr = {}          # th -> dict(unit, pool) ; unit = ('b',) or int offset
        self.buckets = {}      # only for W (allocation failure outcome)
        self.stats = stats

    def builtin(self, p):
        return self.kinds[p] == 'B'

    def live(self):
        return set(t['unit'] for t in self.thr.values() if t['unit'] != 'b')

    def _map(self, h, ok):
        bl = self.buckets.setdefault(hidx(h), [])
        if 0 in bl:
            bl[bl.index(0)] = h
            self.stats['tombstone_reuse'] = self.stats.get('tombstone_reuse', 0) + 1
            return True
        if ok:
            if any(x != 0 for x in bl):
                self.stats['collision_prepend'] = self.stats.get('collision_prepend', 0) + 1
            bl.insert(0, h)
            return True
        self.stats['map_alloc_fail'] = self.stats.get('map_alloc_fail', 0) + 1
        return False

    def _unmap(self, h):
        bl = self.buckets[hidx(h)]
        bl[bl.index(h)] = 0

    def branch(self, name):
        self.stats['branch_' + name] = self.stats.get('branch_' + name, 0) + 1

    def init(self, th, p, cu, ok, site='init'):
        if self.builtin(p):
            self.thr[th] = {'unit': 'b', 'pool': p}
            self.branch(site + ':builtin')
            return True
        self.branch(site + ':user')
        if cu == 0:
            self.stats['create_null'] = self.stats.get('create_null', 0) + 1
            return False
        if not self._map(cu, ok):
            return False
        self.thr[th] = {'unit': cu, 'pool': p}
        return True

    def set(self, th, p, cu, ok, site='set'):
        """returns (success, used_oracle)"""
        t = self.thr[th]
        if t['unit'] == 'b' and self.builtin(p):
            t['pool'] = p
            self.branch(site + ':b->b')
            return True, False
        if t['unit'] == 'b':
            self.branch(site + ':b->u')
            if cu == 0:
                self.stats['create_null'] = self.stats.get('create_null', 0) + 1
                return False, True
            if not self._map(cu, ok):
                return False, True
            t['unit'], t['pool'] = cu, p
            return True, True
        if self.builtin(p):
            self.branch(site + ':u->b')
            self._unmap(t['unit'])
            t['unit'], t['pool'] = 'b', p
            return True, False
        if t['pool'] == p:
            self.branch(site + ':same')
            return True, False
        self.branch(site + ':u->u')
        if cu == 0:
            self.stats['create_null'] = self.stats.get('create_null', 0) + 1
            return False, True
        if cu == t['unit']:
            # same-handle move: the key is mapped a second time, then its first cell is cleared
            self.stats['same_handle_move'] = self.stats.get('same_handle_move', 0) + 1
            bl = self.buckets.get(hidx(cu), [])
            if cu in bl and 0 in bl[:bl.index(cu)]:
                self.stats['same_handle_tombstone_in_front'] = self.stats.get('same_handle_tombstone_in_front', 0) + 1
        if not self._map(cu, ok):
            return False, True
        self._unmap(t['unit'])      # the first cell with that key
        t['unit'], t['pool'] = cu, p
        return True, True

    def unset(self, th):
        t = self.thr.pop(th)
        if t['unit'] != 'b':
            self._unmap(t['unit'])


def pick_oracle(rng, m, hl, pnull, extra_live=(), th=None, pown=0.0):
    """value the next create_unit returns: NULL (0), a handle no live unit has, or - with probability pown, when
    work unit th currently has a user unit - th's own handle (pools whose unit is the work-unit handle itself:
    a move between two such pools maps and unmaps the same key).  Never the handle of ANOTHER live unit: that
    is outside the contract (Misuse in the model)."""
    if rng.random() < pnull:
        return 0
    if th is not None and th in m.thr and m.thr[th]['unit'] != 'b' and rng.random() < pown:
        return m.thr[th]['unit']
    live = m.live() | set(extra_live)
    free = [h for h in hl if h not in live]
    return rng.choice(free) if free else 0


def gen_w(rng, tier):
    cases = []
    stats = {}
    # exhaustive small scope: 2 threads, pools B U U, handles a b (colliding) ; every valid sequence
    a, b, c = bucket_handles(99, 3)
    maxlen = 4 if tier == "quick" else 5
    kinds = "BUU"

    def valid_ops(m):
        ops = []
        live = m.live()
        free = [h for h in (a, b, c) if h not in live]
        for th in (1, 2):
            if th not in m.thr:
                if True:
                    for p in (0, 1):
                        for cu, ok in ([(0, 1)] if p == 0 else [(free[0], 1), (free[0], 0), (0, 1)]):
                            ops.append(("I", th, p, cu, ok))
            else:
                own = m.thr[th]['unit']
                for k in ("S", "X"):
                    for p in (0, 1, 2):
                        orc = [(free[0], 1), (0, 1)] if p else [(0, 1)]
                        if p and own != 'b' and m.thr[th]['pool'] != p:
                            # same-handle move (malloc succeeding / failing)
                            orc += [(own, 1), (own, 0)]
                        for cu, ok in orc:
                            ops.append((k, th, p, cu, ok))
                ops.append(("D", th))
                ops.append(("G", th))
        return ops

    import copy

    def rec(seq, m, inited):
        if seq:
            cases.append("W %s ; %s" % (kinds, " , ".join(seq)))
        if len(seq) == maxlen:
            return
        for op in valid_ops(m):
            m2 = copy.deepcopy(m)
            m2.stats = {}
            if op[0] == "I":
                if op[1] in inited:
                    continue        # a descriptor index is used once per case
                if op[1] == 2 and 1 not in inited:
                    continue        # symmetry: thread 1 first
                m2.init(op[1], op[2], op[3], op[4])
                rec(seq + ["I %d %d %d %d" % op[1:]], m2, inited | {op[1]})
            elif op[0] in "SX":
                m2.set(op[1], op[2], op[3], op[4])
                rec(seq + ["%s %d %d %d %d" % op], m2, inited)
            elif op[0] == "D":
                m2.unset(op[1])
                rec(seq + ["D %d" % op[1]], m2, inited)
            else:
                if len(seq) + 1 == maxlen:
                    cases.append("W %s ; %s" % (kinds, " , ".join(seq + ["G %d" % op[1]])))
    rec([], Mirror(kinds, {}), frozenset())
    nexh = len(cases)
    nrand = 900 if tier == "quick" else 30000
    for _ in range(nrand):
        npool = rng.choice([2, 3, 4, 5])
        kinds = "".join(rng.choice("BUU") for _ in range(npool))
        if 'U' not in kinds:
            kinds = kinds[:-1] + 'U'
        nb = rng.choice([1, 1, 2])
        hl = []
        for bk in rng.sample(range(256), nb):
            hl += bucket_handles(bk, rng.choice([3, 5, 8]), rng, odd_align=rng.random() < 0.3)
        m = Mirror(kinds, stats)
        seq = []
        nextth = 1
        # probability that a create_unit for a work unit that has a user unit returns that very handle
        ident_p = rng.choice([0.0, 0.15, 0.15, 0.5, 1.0])
        for _ in range(rng.choice([3, 6, 12, 24, 40])):
            r = rng.random()
            alive = list(m.thr)
            if (r < 0.25 or not alive) and nextth < 60:
                th = nextth
                nextth += 1
                p = rng.randrange(npool)
                cu = pick_oracle(rng, m, hl, 0.1)
                ok = 0 if rng.random() < 0.12 else 1
                m.init(th, p, cu, ok)
                seq.append("I %d %d %d %d" % (th, p, cu, ok))
            elif r < 0.75 and alive:
                th = rng.choice(alive)
                p = rng.randrange(npool)
                cu = pick_oracle(rng, m, hl, 0.1, th=th, pown=ident_p)
                ok = 0 if rng.random() < 0.12 else 1
                k = rng.choice("SX")
                m.set(th, p, cu, ok, site='set' if k == 'S' else 'uset')
                seq.append("%s %d %d %d %d" % (k, th, p, cu, ok))
            elif r < 0.87 and alive:
                th = rng.choice(alive)
                m.unset(th)
                seq.append("D %d" % th)
            elif alive:
                seq.append("G %d" % rng.choice(alive))
        if seq:
            cases.append("W %s ; %s" % (kinds, " , ".join(seq)))
    return cases, dict({"w_exhaustive_len<=%d" % maxlen: nexh, "w_random": nrand},
                       **{"w_" + k: v for k, v in stats.items()})


# ----------------------------------------------------------------- API-level cases
class ApiMirror(Mirror):
    def __init__(self, kinds, stats):
        Mirror.__init__(self, kinds, stats)
        self.x = {}                 # th -> dict(loc, mig, named, script)
        self.pools = [[] for _ in kinds]   # contents: list of th (python tracks threads, not units)

    def push(self, th):
        self.pools[self.thr[th]['pool']].append(th)
        self.x[th]['loc'] = 'P'

    def terminate(self, th):
        if self.x[th]['named']:
            self.x[th]['loc'] = 'T'
            self.x[th]['script'] = []
        else:
            self.unset(th)
            del self.x[th]

    def run_script(self, th, os):
        x = self.x[th]
        while x['script']:
            a = x['script'].pop(0)
            if a == 'y':
                if x['mig'] is not None:
                    cu = os.pop(0) if os else 0
                    ok, used = self.set(th, x['mig'], cu, 1, site='yield')
                    if not used:
                        os.insert(0, cu)
                    if ok:
                        x['mig'] = None
                self.push(th)
                return 1
            else:
                q = a[1]
                if self.thr[th]['pool'] != q:
                    x['mig'] = q
        self.terminate(th)
        return 2

    def schedule(self, th, os):
        x = self.x[th]
        if x['mig'] is not None:
            cu = os.pop(0) if os else 0
            ok, used = self.set(th, x['mig'], cu, 1, site='sched')
            if not used:
                os.insert(0, cu)
            if ok:
                x['mig'] = None
                self.push(th)
                return 0
        return self.run_script(th, os)


def script_text(sc):
    if not sc:
        return "-"
    return "".join('y' if a == 'y' else "m%d" % a[1] for a in sc)


def gen_a(rng, tier):
    cases = []
    stats = {}
    opcount = {}
    nrand = 1500 if tier == "quick" else 40000
    for _ in range(nrand):
        npool = rng.choice([2, 3, 4, 5])
        kinds = "".join(rng.choice("BULUL") for _ in range(npool))
        if all(k == 'B' for k in kinds):
            kinds = kinds[:-1] + rng.choice("UL")
        nb = rng.choice([1, 1, 2])
        hl = []
        for bk in rng.sample(range(256), nb):
            hl += bucket_handles(bk, rng.choice([4, 6, 10]), rng, odd_align=rng.random() < 0.3)
        m = ApiMirror(kinds, stats)
        seq = []
        nextth = 1
        user_pools = [i for i, k in enumerate(kinds) if k != 'B']

        # "identity" cases: every pool hands out one fixed handle per work unit (unit = thread handle), so every
        # direct move between two user pools is a same-handle move; otherwise it happens with probability 0.12
        ident = rng.random() < 0.3
        ident_h = {}
        if ident:
            hl = list(dict.fromkeys(hl + bucket_handles(hidx(hl[0]), 40, rng)))

        def oracles(n=2, th=None):
            out = []
            for _ in range(n):
                if ident and th is not None:
                    if th not in ident_h:
                        taken = m.live() | set(ident_h.values())
                        free = [h for h in hl if h not in taken]
                        ident_h[th] = rng.choice(free) if free else 0
                    o = 0 if rng.random() < 0.08 else ident_h[th]
                else:
                    o = pick_oracle(rng, m, hl, 0.12, extra_live=[x for x in out if x], th=th,
                                    pown=0.12 if not out else 0.0)
                out.append(o)
            return out

        def fmt(os):
            return " ".join(str(o) for o in os)

        def rand_script():
            sc = []
            for _ in range(rng.choice([0, 0, 1, 1, 2, 3])):
                sc.append('y' if rng.random() < 0.55 else ('m', rng.randrange(npool)))
            return sc

        nops = rng.choice([4, 8, 14, 22, 34])
        for _ in range(nops):
            alive = list(m.x)
            outs = [t for t in alive if m.x[t]['loc'] == 'O']
            terms = [t for t in alive if m.x[t]['loc'] == 'T']
            notterm = [t for t in alive if m.x[t]['loc'] != 'T']
            nonempty = [i for i in range(npool) if m.pools[i]]
            choices = []
            if nextth < 40:
                choices.append((3 if alive else 30, 'c'))
            if nonempty:
                choices.append((5, 'pop'))
            choices.append((0.4, 'popany'))
            batchable = [i for i in range(npool) if kinds[i] in 'BL' and m.pools[i]]
            if batchable:
                choices.append((1.6, 'popn'))
            if outs:
                choices += [(3, 'push'), (5, 'run'), (1.5, 'sa')]
            if terms:
                choices += [(2.5, 'fr'), (2.5, 'rv'), (0.7, 'sa')]
            if notterm:
                choices.append((2, 'mg'))
            if alive:
                choices.append((1.2, 'ck'))
            tot = sum(w for w, _ in choices)
            r = rng.random() * tot
            kind = choices[-1][1]
            for w, k in choices:
                if r < w:
                    kind = k
                    break
                r -= w
            op = None
            if kind == 'c':
                th = nextth
                nextth += 1
                named = 1 if rng.random() < 0.7 else 0
                p = rng.randrange(npool) if named else rng.choice(user_pools)
                sc = rand_script()
                os = oracles(1, th)
                if m.init(th, p, os[0], 1, site='create'):
                    m.x[th] = {'loc': 'O', 'mig': None, 'named': named, 'script': list(sc)}
                    m.push(th)
                op = "c %d %d %d %s : %s" % (th, p, named, script_text(sc), fmt(os))
            elif kind in ('pop', 'popany'):
                p = rng.choice(nonempty) if kind == 'pop' else rng.randrange(npool)
                k = rng.randrange(0, 7)
                if m.pools[p]:
                    i = 0 if m.builtin(p) else k % len(m.pools[p])
                    th = m.pools[p].pop(i)
                    m.x[th]['loc'] = 'O'
                op = "%s %d %d" % (rng.choice(["po", "pp"]), p, k)
            elif kind == 'popn':
                # ABT_pool_pop_threads with a batch length below, at and above the pool's size (built-in pools: pop_many;
                # legacy ABT_pool_def pools: pool_pop_many_wrapper over the user's p_pop)
                p = rng.choice(batchable)
                sz = len(m.pools[p])
                n = max(1, min(16, rng.choice([1, 2, sz - 1, sz, sz + 1, sz // 2 + 1])))
                k = rng.randrange(0, 7)
                for _ in range(n):
                    if m.pools[p]:
                        i = 0 if m.builtin(p) else k % len(m.pools[p])
                        th = m.pools[p].pop(i)
                        m.x[th]['loc'] = 'O'
                op = "pn %d %d %d" % (p, n, k)
            elif kind == 'push':
                th = rng.choice(outs)
                p = rng.randrange(npool)
                os = oracles(1, th)
                pk = rng.choice(["pt", "pu", "pm"])
                if pk == "pm" and not m.builtin(p):
                    pk = "pt"   # ABT_pool_push_threads needs the optional push_many, which the harness's user pools do not define
                ok, _ = m.set(th, p, os[0], 1, site=pk)
                if ok:
                    m.push(th)
                op = "%s %d %d : %s" % (pk, p, th, fmt(os))
            elif kind == 'sa':
                th = rng.choice(outs + terms)
                p = rng.randrange(npool)
                os = oracles(1, th)
                m.set(th, p, os[0], 1, site='sa')
                op = "sa %d %d : %s" % (th, p, fmt(os))
            elif kind == 'mg':
                th = rng.choice(notterm)
                p = rng.randrange(npool)
                if m.thr[th]['pool'] != p:
                    m.x[th]['mig'] = p
                op = "mg %d %d" % (th, p)
            elif kind == 'run':
                th = rng.choice(outs)
                os = oracles(2, th)
                if rng.random() < 0.75:
                    op = "rn %d : %s" % (th, fmt(os))
                    m.schedule(th, list(os))
                else:
                    p = rng.randrange(npool)
                    op = "ru %d %d : %s" % (th, p, fmt(os))
                    os2 = list(os)
                    cu = os2.pop(0)
                    ok, used = m.set(th, p, cu, 1, site='ru')
                    if not used:
                        os2.insert(0, cu)
                    if ok:
                        m.schedule(th, os2)
            elif kind == 'fr':
                th = rng.choice(terms)
                m.unset(th)
                del m.x[th]
                op = "fr %d" % th
            elif kind == 'rv':
                th = rng.choice(terms)
                p = rng.randrange(npool)
                sc = rand_script()
                os = oracles(1, th)
                ok, _ = m.set(th, p, os[0], 1, site='rv')
                if ok:
                    m.x[th]['mig'] = None
                    m.x[th]['script'] = list(sc)
                    m.x[th]['loc'] = 'O'
                    m.push(th)
                op = "rv %d %d %s : %s" % (th, p, script_text(sc), fmt(os))
            elif kind == 'ck':
                op = "ck %d" % rng.choice(alive)
            if op:
                seq.append(op)
                opcount[op.split()[0]] = opcount.get(op.split()[0], 0) + 1
        # explicit tail so that most cases end with everything freed (the rest is cleaned silently)
        if seq and rng.random() < 0.6:
            for _ in range(60):
                alive = list(m.x)
                if not alive:
                    break
                th = rng.choice(alive)
                loc = m.x[th]['loc']
                if loc == 'P':
                    p = m.thr[th]['pool']
                    i = 0 if m.builtin(p) else m.pools[p].index(th)
                    th2 = m.pools[p].pop(i)
                    m.x[th2]['loc'] = 'O'
                    seq.append("po %d %d" % (p, i))
                elif loc == 'O':
                    os = oracles(2, th)
                    seq.append("rn %d : %s" % (th, fmt(os)))
                    m.schedule(th, list(os))
                else:
                    m.unset(th)
                    del m.x[th]
                    seq.append("fr %d" % th)
        if seq:
            cases.append("A %s ; %s" % (kinds, " , ".join(seq)))
    st = {"a_random": nrand}
    st.update({"a_op_" + k: v for k, v in opcount.items()})
    st.update({"a_" + k: v for k, v in stats.items()})
    return cases, st


def gen_s(rng, tier):
    n = 8 if tier == "quick" else 80
    cases = []
    for i in range(n):
        nes = rng.choice([2, 3, 4, 6])
        depth = rng.choice([2, 3, 4])
        roots = rng.choice([100, 200, 400]) if tier == "quick" else rng.choice([200, 600, 1200])
        cases.append("S %d %d %d %d" % (nes, depth, roots, rng.randrange(1, 1 << 30)))
    return cases, {"s_storms": n}


def gen(rng, tier):
    out = ["N"]
    stats = {}
    for g in (gen_t, gen_w, gen_a, gen_s):
        c, s = g(rng, tier)
        out += c
        stats.update(s)
    return out, stats


def classify(case, impl, model):
    if impl.startswith("CRASH"):
        return "observable"
    if " | " in impl and " | " in model:
        return "observable" if impl.split(" | ")[0] != model.split(" | ")[0] else "internal"
    return "observable"


def nontrivial(case):
    return case.startswith("S") or case.count(",") >= 2




def run(tier, seed, replay):
    return vlib.run_differential_property(
        ID, "Properties_C14.v", ["Properties_C14.vo", "Extract_C14.vo"], "c14", "h_c14.c",
        gen, classify, nontrivial, tier, seed, replay=replay, san=True,
        rule="T: every valid sequence of length<=L of map/unmap over 3 colliding handles, with the composite same-key step "
             "map(h)-get(h)-unmap(h) on a mapped h, each extended by every get / map-with-failing-malloc (fresh or same key) "
             "as last op (exhaustive) + seeded sequences over 1-3 buckets with all of these in any position; W: every "
             "valid sequence of length<=L of init/set/unit_set/unset/get over 2 descriptors, pools B U U and 3 colliding "
             "handles, create_unit returning a fresh handle, NULL or (user->other-user moves) the handle the work unit already "
             "has, with succeeding and failing malloc (exhaustive) + seeded (same-handle probability 0/0.15/0.5/1 per case); "
             "A: seeded public-API sequences over built-in / ABT_pool_user_def / legacy ABT_pool_def pools, ~30% of the cases "
             "with one fixed handle per work unit (every direct user->user move is a same-handle move), 12% own-handle "
             "oracles otherwise; S: multi-stream storms, half of the self-migrations keep the handle (monitor). "
             "non-trivial = >=3 ops (or a storm). Distinct = distinct case text.",
        extra_assumptions=["unit.c and the inline functions of abti_unit.h are exercised both as an ASan+UBSan-instrumented "
                           "white-box copy (own ABTI_global, malloc-failure injection) and through the public API of the "
                           "-O2 library built from the tree under test"])
