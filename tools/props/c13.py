"""C13 — decided on the scheduler LTS (see tools/schedprops.py, coq/Conc/Sched*.v)."""
import schedprops, schedgen
ID = "C13"
COQ_TARGETS = schedprops.SCHED_TARGETS + ["Properties_SchedMig.vo", "Properties_MigReq.vo", "Extract_Sched.vo"]
DRIVERS = ["sched"]


def gen_migrate_ss(rng, big=False):
    return schedgen.gen_migrate(rng, big, self_suspend=True)


FAMS = [schedgen.gen_migrate, gen_migrate_ss, schedgen.gen_mig_switch, schedgen.gen_f6]
NAME_RE = r"^C13_"
MANIFEST = {
    "text": "Theorems (Coq, every number of units/pools, every interleaving of the scheduler LTS whose labels are the ABT_VERIF hook "
            "records): a push always goes to the unit's associated pool and the unit was in no pool before, a queued unit is never in the middle of a migration (so the pool it is popped from is the pool it was pushed to); the request bit is set only after a target was stored, the handler moves the unit to exactly the stored target, calls the callback only between the pool change and the clearing of the request (Properties_SchedMig.v). The LTS admits the loss of a request issued while another is being handled (C13_second_request_lost_refuted: finding F6, repaired in /repo by a re-check the LTS does not model). The request protocol of one unit WITH that re-check is a separate hand-written model (Conc/MigReq.v: any number of requesters x the handler's load/move/clear/re-load/re-set): C13_no_lost_request proves that whenever nothing is in flight the unit is in the pool of the most recent request, C13_no_recheck_refuted that the handler without the re-check is not (Properties_MigReq.v). The two re-check steps have no hook record; they are tied to the code by outcome: the gen_f6 scenarios (with delay sweeps inside the handler) and the monitors (acknowledged => target stored inside the call; final pool = last acknowledged target; callback count). Tie: generated scenarios run on the real runtime (1-4 streams, FIFO/FIFO_WAIT/RANDWS pools, all predefined "
            "schedulers, ULTs/tasklets/external threads); every recorded atomic action must be enabled in the model with the recorded "
            "values (state loads, request bits, num_blocked, queue emptiness); API-level monitors (entry counts, arguments, return codes, "
            "pool sizes at quiescence, join/xstream-join postconditions, watchdog) run on every execution.",
    "note": schedprops.NOTE,
    "technique": schedprops.TECH,
}


def run(tier, seed, replay):
    return schedprops.run(ID, NAME_RE, FAMS, tier, seed, replay, files=schedprops.SCHED_FILES + ["Properties_SchedMig.v", "Properties_MigReq.v"],
                          known_patterns={"F6": ("# F6", r"^F6:")},
                          # delay before the hooked action that follows a MIG_CB / SET_POOL record: holds open the
                          # handler's unhooked reads between the callback and the clearing of the request bit
                          extra_sweeps=(-49, -46), sweep_filter=lambda scn: "# F6" in scn,
                          rule="seeded scenario families %s; every history replayed through the extracted LTS; non-trivial = all (each scenario has >= 1 unit)" % [f.__name__ for f in FAMS])
