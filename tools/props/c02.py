"""C02 — one stream at a time; context survives every switch.

Half (a) (machine context, translator based) lives in stage_a(); half (b)
(scheduler LTS, "one stream at a time") is added by stage_b() / the combined
run() below."""
import os, sys, re, json, random, fcntl, contextlib, time
import vlib

sys.path.insert(0, os.path.dirname(os.path.dirname(os.path.abspath(__file__))))
import asm2coq

ID = "C02"
MANIFEST_A = {
    "text": "(a) machine context, translator based: tools/asm2coq.py turns the preprocessed x86-64 fcontext assembly of /repo's "
            "current tree into Coq instruction lists (coq/Asm/FctxGen.v, regenerated on every run; unknown syntax = failure) and "
            "the theorems are re-checked against them under the executable ISA semantics coq/Asm/X86.v: for all 4 save x 4 restore "
            "primitives and ALL register/memory states (stated side conditions: 64-bit values, 56 bytes of stack, parties' frames and "
            "fcontext_t cells disjoint) a ULT's rbx, rbp, r12-r15, MXCSR, x87 CW, RSP and return address are exactly restored after "
            "save -> any frame-preserving execution -> restore (C02_roundtrip_*, 16 theorems), with every called C callback replaced "
            "by an arbitrary SysV-ABI-conforming callee; the _with_call savers have the complete context behind *p_old_ctx at the "
            "instant the callback is entered and can leave no other way (C02_save_before_callback, _order); a fresh ULT / callback "
            "is entered with RSP = 8 mod 16 inside (top-24, top-8] for every p_stacktop, with the right function and argument "
            "(C02_entry_alignment*); peek_fcontext returns transparently; no execution gets stuck under 8-byte alignment "
            "(C02_progress).  Tie/search: harness/h_c02_ctx.c runs canaries in all those registers, MXCSR rounding/FTZ/DAZ bits, "
            "x87 precision/rounding bits and stack words through every primitive pair (white box, directly on the primitives) and "
            "through every public switch API (yield, yield_to, create_to, revive_to, suspend/resume, resume_yield_to, suspend_to, "
            "resume_suspend_to, exit_to, resume_exit_to, join hand-off, eventual wait, ABT_self_schedule, set_main_sched) on default, "
            "malloc'ed, user-supplied (every 8-byte offset mod 64, sizes not multiple of 16) and primary-ULT stacks.",
    "note": "Trusted: Coq kernel; the translator (one-to-one mnemonic mapping, ~250 lines, hard error on anything unknown); the "
            "hand-written semantics X86.v (16 instruction forms from the SDM; memory = 4-byte cells, executions with an access that "
            "is not 4-aligned are outside the model: theorems are partial correctness + separate progress theorem under 8-byte "
            "alignment); the ABI oracle abi_ret (a relation, not an axiom; deliberately weaker than the ABI on MXCSR/CW); both are "
            "validated against the hardware by the canary harness.  Not modelled: flags, encodings, red zone, signals, #GP on reserved "
            "MXCSR bits, other architectures.  'any frame-preserving execution' is a hypothesis of (a); that the runtime keeps a "
            "suspended ULT's frame and cell intact (no second stream runs it, stacks disjoint) is half (b) and C15.",
}

# ====================================================================== (a) machine context
FCTXGEN = os.path.join(vlib.COQ, "Asm", "FctxGen.v")
PROP_FILE = "Properties_C02.v"
TARGETS_A = ["Asm/X86.vo", "Asm/FctxSpec.vo", "Asm/FctxGen.vo", "Asm/FctxBase.vo", "Asm/FctxSave.vo", "Asm/FctxRestore.vo",
             "Asm/FctxEntry.vo", "Asm/FctxProofs.vo", "Asm/FctxExamples.vo", "Asm/FctxProgress.vo", "Properties_C02.vo"]
HARNESS_A = "h_c02_ctx.c"

# which Properties theorems rest on which lemma of Asm/FctxProofs.v (to name what broke)
_SAVES = {"save_switch_core": "switch", "save_init_and_switch_core": "init_and_switch",
          "save_swc_core": "switch_with_call", "save_iswc_core": "init_and_switch_with_call"}
_RESTORES = {"restore_switch": "switch", "restore_jump": "jump",
             "restore_switch_with_call": "switch_with_call", "restore_jump_with_call": "jump_with_call"}
_ALL_S = ["switch", "switch_with_call", "init_and_switch", "init_and_switch_with_call"]
_ALL_R = ["switch", "jump", "switch_with_call", "jump_with_call"]


def theorems_resting_on(lemma):
    if lemma in _SAVES:
        t = ["C02_roundtrip_%s_%s" % (_SAVES[lemma], r) for r in _ALL_R]
        if lemma in ("save_swc_core", "save_iswc_core"):
            t.append("C02_save_before_callback")
        return t
    if lemma in _RESTORES:
        return ["C02_roundtrip_%s_%s" % (s, _RESTORES[lemma]) for s in _ALL_S]
    if lemma.startswith("entry_"):
        return ["C02_entry_alignment"]
    if lemma.startswith("cb_entry_"):
        return ["C02_entry_alignment_callback_on_started"]
    if lemma == "peek_returns":
        return ["C02_peek_returns"]
    if lemma.startswith("progress_"):
        return ["C02_progress"]
    if lemma == "ex_progress_pre":
        return ["C02_progress_example"]
    if lemma.startswith("order_"):
        return ["C02_save_before_callback_order"]
    if lemma == "ex_entry":
        return ["C02_entry_example (non-vacuity of C02_entry_alignment: a routine now gets stuck or enters elsewhere)"]
    if lemma == "ex_peek":
        return ["C02_peek_example (non-vacuity of C02_peek_returns)"]
    if lemma.startswith("ex_"):
        return ["C02_roundtrip_example_* (non-vacuity: a routine now gets stuck / does not restore on the concrete example)"]
    return ["every C02 (a) theorem (shared lemma %s)" % lemma]


def broken_lemmas(make_log):
    """every 'File "./Asm/X.v", line N' of the (make -k) log -> [(file, line, enclosing lemma name)]"""
    out = []
    for m in re.finditer(r'File "\./(Asm/\w+\.v|Properties_C02\.v)", line (\d+)', make_log):
        f, ln = m.group(1), int(m.group(2))
        name = "?"
        try:
            lines = open(os.path.join(vlib.COQ, f)).read().split("\n")
            for l in lines[:ln][::-1]:
                mm = re.match(r"\s*(?:Theorem|Lemma|Example|Corollary)\s+(\w+)", l)
                if mm:
                    name = mm.group(1)
                    break
        except OSError:
            pass
        if (f, ln, name) not in out:
            out.append((f, ln, name))
    return out


@contextlib.contextmanager
def fctx_lock():
    """FctxGen.v is a shared, regenerated source: one regenerate+build at a time"""
    os.makedirs(vlib.BUILD, exist_ok=True)
    with open(os.path.join(vlib.BUILD, "c02gen.lock"), "w") as lk:
        fcntl.flock(lk, fcntl.LOCK_EX)
        yield


def setup_regenerate():
    """for tools/setup.py: refresh the committed coq/Asm/FctxGen.v from /repo's tree before `make all`"""
    with fctx_lock():
        ok, info, changed = regenerate(vlib.REPO)
    return ok, info


def regenerate(root):
    """translate <root>/src/arch/fcontext/...S into coq/Asm/FctxGen.v (written only if changed).
    -> (ok, info-or-error-text, changed)"""
    try:
        text, info = asm2coq.translate(root)
    except asm2coq.TranslateError as e:
        return False, str(e), False
    except Exception as e:            # gcc missing, timeout, ...
        return False, "translator crashed: %r" % (e,), False
    changed = asm2coq.write_if_changed(FCTXGEN, text)
    return True, info, changed


# ---------------------------------------------------------------- canary scenarios
OPS = [("yield", ["sched", "yield_to", "exit_to"]),
       ("yield_to_fresh", ["sched", "yield_to", "exit_to"]),
       ("yield_to_started", ["sched", "yield_to", "exit_to"]),
       ("thread_yield_to", ["sched", "yield_to", "exit_to"]),
       ("create_to", ["sched", "yield_to", "exit_to"]),
       ("revive_to", ["sched", "yield_to", "exit_to"]),
       ("resume_yield_to", ["sched", "yield_to", "exit_to"]),
       ("suspend", ["resume", "resume_yield_to", "resume_suspend_to", "resume_exit_to"]),
       ("suspend_to_fresh", ["resume", "resume_yield_to", "resume_suspend_to", "resume_exit_to"]),
       ("suspend_to_started", ["resume", "resume_yield_to", "resume_suspend_to", "resume_exit_to"]),
       ("resume_suspend_to", ["resume", "resume_yield_to", "resume_suspend_to", "resume_exit_to"]),
       ("eventual_wait", ["set_ev"]),
       ("join", ["exit"]),
       ("schedule_fresh", ["child_exit", "child_yield"]),
       ("schedule_started", ["child_exit", "child_yield"]),
       ("set_main_sched", ["sched"])]
# the primary ULT as the subject: it cannot be the target of exit_to / be joined
OPS_PRIMARY = [("yield", ["sched", "yield_to"]), ("yield_to_fresh", ["sched", "yield_to"]),
               ("create_to", ["sched", "yield_to"]), ("suspend", ["resume", "resume_yield_to"]),
               ("suspend_to_fresh", ["resume", "resume_yield_to"]), ("eventual_wait", ["set_ev"]),
               ("join", ["exit"]), ("schedule_fresh", ["child_exit", "child_yield"])]
# save primitive / restore primitive a public-API scenario goes through (for the evidence histogram)
SAVE_OF = {"yield": "switch_with_call", "yield_to_fresh": "init_and_switch_with_call",
           "yield_to_started": "switch_with_call", "thread_yield_to": "init_and_switch_with_call",
           "create_to": "init_and_switch_with_call", "revive_to": "init_and_switch_with_call",
           "resume_yield_to": "switch_with_call", "suspend": "switch_with_call",
           "suspend_to_fresh": "init_and_switch_with_call", "suspend_to_started": "switch_with_call",
           "resume_suspend_to": "switch_with_call", "eventual_wait": "switch_with_call", "join": "switch_with_call",
           "schedule_fresh": "init_and_switch", "schedule_started": "switch", "set_main_sched": "switch_with_call"}
RESTORE_OF = {"sched": "switch", "resume": "switch", "set_ev": "switch", "yield_to": "switch_with_call",
              "resume_yield_to": "switch_with_call", "resume_suspend_to": "switch_with_call",
              "child_yield": "switch_with_call", "exit_to": "jump_with_call", "resume_exit_to": "jump_with_call",
              "exit": "jump_with_call", "child_exit": "jump_with_call"}


def scenarios(tier, seed):
    rng = random.Random(seed)
    sc = []
    # white box: all 16 primitive pairs, stack tops at several byte offsets
    offs = [0, 8] + [rng.randrange(1, 16)] if tier == "quick" else list(range(16))
    for s in _ALL_S:
        for r in _ALL_R:
            for o in offs:
                sc.append("W %s %s %d" % (s, r, o))
    for v in ("init_and_jump", "init_and_jump_with_call"):
        for r in _ALL_R:
            for o in offs:
                sc.append("J %s %s %d" % (v, r, o))
    for o in offs:
        sc.append("K %d" % o)
    allp = [(op, res) for op, rs in OPS for res in rs]
    # default (memory pool) stacks
    for op, res in allp:
        sc.append("P D 0 0 %s %s" % (op, res))
    # attribute stack size: multiple of 64, not the default 16384 -> malloc'ed descriptor + stack
    # (sizes that are not multiples of 64 are finding F1 of C15 and are avoided here)
    msizes = [32768 + 64] + [32768 + 64 * rng.randrange(2, 200) for _ in range(1 if tier == "quick" else 5)]
    for sz in msizes:
        for op, res in allp:
            sc.append("P M 0 %d %s %s" % (sz, op, res))
    # user-supplied stacks: every 8-byte offset mod 64, sizes that are not multiples of 16
    for off in range(0, 64, 8):
        sizes = [32768 + 8 * (2 * rng.randrange(0, 64) + 1) for _ in range(1 if tier == "quick" else 3)]
        for sz in sizes:
            for op, res in allp:
                sc.append("P U %d %d %s %s" % (off, sz, op, res))
    for op, rs in OPS_PRIMARY:
        for res in rs:
            sc.append("P Y 0 0 %s %s" % (op, res))
    kinds = os.environ.get("VERIF_C02_KINDS")      # self-test aid: e.g. "P" = public-API scenarios only
    if kinds:
        sc = [l for l in sc if l[0] in kinds]
    return sc


def run_canary(exe, lines, sc, max_bad=6, timeout=120):
    """-> list of (scenario, status, detail); status in OK / FAIL / CRASH / NOTRUN.  The harness leaves
    after the first failing scenario (process state is not trustworthy then); we restart behind it."""
    res = []
    start, bad = 0, 0
    while start < len(lines):
        if bad >= max_bad:
            res += [(l, "NOTRUN", "") for l in lines[start:]]
            break
        cf = os.path.join(sc, "c02-scen.txt")
        with open(cf, "w") as f:
            f.write("\n".join(lines[start:]) + "\n")
        rc, out, err = vlib.run([exe, cf], timeout=timeout)
        outl = [l for l in out.split("\n") if l]
        k = 0
        for l in outl:
            m = re.match(r"(OK|FAIL|CRASH) (.*?)(?: : (.*))?$", l)
            if not m or start + k >= len(lines):
                break
            res.append((lines[start + k], m.group(1), m.group(3) or ""))
            if m.group(1) != "OK":
                bad += 1
            k += 1
        if k == 0 or (start + k < len(lines) and res[-1][1] == "OK"):
            # died without a line for the next scenario (killed, timeout, exit inside the library)
            res.append((lines[start + k], "CRASH", "rc=%s %s" % (rc, " ".join(err.split())[-300:])))
            bad += 1
            k += 1
        start += k
    return res


def stage_a(rep, sc, tier, seed, replay=None, extra_targets=()):
    """Machine-context half.  rep: vlib.Report; sc: scratch dir (vlib.Scratch) that holds / will hold the
    copy of /repo's working tree.  Adds violations to rep.  Returns
      {"proof": result of vlib.proof_stage on Properties_C02.v (targets of (a) + extra_targets),
       "cov": coverage dict for the evidence, "ok": bool}"""
    cov = {}
    if not os.path.isdir(os.path.join(sc, "src")):
        vlib.copy_repo_src(sc)
    # 1. translate the CURRENT assembly, rebuild and re-check the theorems against it
    with fctx_lock():
        t0 = time.time()
        tok, tinfo, changed = regenerate(sc)
        proof = vlib.proof_stage(PROP_FILE, TARGETS_A + list(extra_targets))
        cov["translator"] = tinfo if tok else {"error": tinfo}
        cov["fctxgen_changed"] = changed
        chk_err = None
        if tier == "thorough" and tok and proof["ok"]:
            # independent re-check of the compiled development by the kernel-only checker
            rc, out, err = vlib.run(["coqchk", "-silent", "-o", "-Q", ".", "ABT", "ABT.Properties_C02"], cwd=vlib.COQ, timeout=1800)
            cov["coqchk"] = "ok, Axioms: <none>" if (rc == 0 and "Axioms: <none>" in (out + err)) else "FAILED"
            if cov["coqchk"] == "FAILED":
                chk_err = (out + err)[-2000:]
        cov["proof_wall_s"] = round(time.time() - t0, 1)
    broken = None
    if chk_err:
        proof["ok"] = False
        proof["log"] = "coqchk rejected the compiled development or found axioms:\n" + chk_err
    if not tok:
        broken = {"what": "translation of fcontext_x86_64_sysv_elf_gas.S failed (instruction/operand outside the modelled "
                          "subset, or structure changed): " + tinfo,
                  "theorems": ["every C02 (a) theorem: they are about the translation of the current assembly"]}
        proof["ok"] = False
        proof["discharged"] = 0
    elif not proof["ok"]:
        bls = broken_lemmas(proof["log"])
        if bls:
            thms = []
            for _, _, nm in bls:
                for t in theorems_resting_on(nm):
                    if t not in thms:
                        thms.append(t)
            broken = {"what": "; ".join("%s line %d: proof of %s no longer checks against the regenerated FctxGen.v" % b
                                        for b in bls),
                      "lemmas": [b[2] for b in bls], "theorems": thms, "log": proof["log"][-2500:]}
        else:
            broken = {"what": "Coq build of the C02 development failed", "theorems": ["?"], "log": proof["log"][-2500:]}
    # 2. canary harness on the scratch build: oracle validation, and the failing-input search
    okl, lib, lerr = vlib.get_lib(sc)
    if not okl:
        rep.violation("a-repo-build.txt", "the library of /repo's working tree does not compile:\n" + lerr, found_input=False)
        return {"proof": proof, "cov": cov, "ok": False}
    exe = os.path.join(sc, "h_c02_ctx")
    okh, herr = vlib.build_harness(sc, os.path.join(vlib.HARNESS, HARNESS_A), exe, lib=lib, san=False)
    if not okh:
        rep.violation("a-harness-build.txt", "harness %s does not build against /repo's working tree "
                      "(fcontext primitive signatures / public API changed):\n%s" % (HARNESS_A, herr), found_input=False)
        return {"proof": proof, "cov": cov, "ok": False}
    if replay:
        lines = list(replay.get("scenarios", []))
    else:
        lines = scenarios(tier, seed)
    results = run_canary(exe, lines, sc)
    bad = [r for r in results if r[1] in ("FAIL", "CRASH")]
    ran = [r for r in results if r[1] != "NOTRUN"]
    hist = {}
    for l, st, _ in ran:
        p = l.split()
        if p[0] == "W":
            key = "W %s/%s" % (p[1], p[2])
        elif p[0] == "J":
            key = "W switch+%s/%s" % (p[1], p[2])
        elif p[0] == "K":
            key = "W peek"
        else:
            key = "P save=%s restore=%s" % (SAVE_OF.get(p[4], "?"), RESTORE_OF.get(p[5], "?"))
        hist[key] = hist.get(key, 0) + 1
    cov.update({"evaluations": len(ran), "distinct_nontrivial": len(set(l for l, _, _ in ran)),
                "rule": "one evaluation = one canary scenario executed on the scratch build of /repo's tree: W = primitive pair "
                        "called directly through the register/MXCSR/x87-CW canary trampoline; P = public-API switch of a ULT on a "
                        "stack of provenance D/M/U/Y resumed by the named resumer; every scenario switches contexts at least twice, "
                        "so all are non-trivial; distinct = distinct scenario text",
                "samples": lines[:2] + lines[len(lines) // 2: len(lines) // 2 + 2] + lines[-1:],
                "primitive_pair_histogram": hist,
                "canary_failures": len(bad), "disagreements_checked": len(ran)})
    ok = True
    if bad:
        ok = False
        l, st, detail = bad[0]
        payload = {"kind": "c02a-canary", "property": ID, "seed": seed, "scenarios": [l], "status": st, "observed": detail,
                   "more_failing": [b[0] for b in bad[1:6]],
                   "explanation": "canary values kept in rbx/rbp/r12-r15/MXCSR/x87 CW/stack across this context switch did not "
                                  "survive (or the ULT was entered misaligned / the process crashed) on the real code",
                   "broken_theorems": broken["theorems"] if broken else
                   ["none: the Coq theorems still check - the hardware contradicts the model or its ABI oracle"],
                   "how_to_replay": "tools/check.py C02 --replay <this file>"}
        if broken:
            payload["proof"] = broken["what"]
        rep.violation("a-canary-%d.json" % seed, payload, found_input=True, text="%s %s : %s" % (st, l, detail[:300]))
    elif broken:
        ok = False
        rep.violation("a-proof-%d.json" % seed,
                      {"kind": "c02a-proof", "property": ID, "seed": seed, "broken": broken["what"],
                       "broken_theorems": broken["theorems"], "log": broken.get("log", ""),
                       "search": "%d canary scenarios (all primitive pairs white-box + public API on all stack provenances) "
                                 "passed on the real code" % len(ran), "scenarios": []},
                      found_input=False, text=broken["what"] + " -> " + ", ".join(broken["theorems"][:6]))
    return {"proof": proof, "cov": cov, "ok": ok}


# ====================================================================== (b) one stream at a time
import hist, schedprops, schedgen

B_FILES = ["Properties_SchedLife.v", "Properties_SchedPlace.v"]
B_NAME_RE = r"^(C02_publish_only_after_save|C11_blocked_only_in_callback|C11_run_needs_handover|C11_once_per_resume|C01_pop_exactly_once|C01_not_queued_elsewhere|C01_never_lost_queued)$"
B_TARGETS = ["Properties_SchedLife.vo", "Properties_SchedPlace.vo", "Extract_Sched.vo"]   # built together with (a)'s


def stage_b(rep, sc, tier, seed, replay=None):
    """scheduler-LTS half: a unit has exactly one structural place (so it runs on at most one stream), RUNNING is stored
    only by a hand-over, and every action that makes a unit available to another stream (push, READY/BLOCKED store,
    p_link publication) is enabled only after a callback was entered on its behalf (context saved) or before it ever ran;
    tied by history conformance of directed-switch / suspend-resume / join scenarios."""
    proof_b = vlib.proof_stage_multi(B_FILES, B_TARGETS, B_NAME_RE)
    okl, lib, lerr = vlib.get_lib(sc)
    if not okl:
        rep.violation("repo-build.txt", "the library does not compile with -D%s:\n%s" % (vlib.GUARD, lerr), found_input=False)
        return {"cov": {}, "ok": False, "proof": proof_b}
    gen = schedprops.mkgen([schedgen.gen_directed, schedgen.gen_suspend, schedgen.gen_join], 12, 200)
    cov = hist.history_stage(rep, proof_b["ok"], sc, lib, ID, "sched", "h_sched.c", gen, tier, seed, replay=replay,
                             rule="(b) seeded directed-switch / suspend-resume / join scenarios replayed through the scheduler LTS",
                             proof_log=proof_b["log"], prop_file=",".join(B_FILES))
    cov = {("b_" + k): v for k, v in cov.items()}
    if not rep.violations and not replay:
        # (c) blocking primitives whose waiters poll or sleep (wait lists, abti_waitlist.h): a waiter that changes
        # streams while it waits must carry on with its own context.  Timed condition waits with the secondary streams
        # sharing one pool, judged by the C05 LTS (Conc/CondMutex.v) and its monitors.
        from props import c05

        def gen_c(rng, t):
            n = 10 if t == "quick" else 150
            out = []
            for _ in range(n):
                sc_ = c05.gen_race(rng)
                if "SHARED 1" not in sc_:
                    sc_ = sc_.replace("WATCHDOG 10", "SHARED 1\nWATCHDOG 10", 1)
                out.append(sc_)
            return out, {"scenarios": n, "families": ["c05.gen_race+SHARED"]}
        covc = hist.history_stage(rep, True, sc, lib, ID, "c05", "h_c05.c", gen_c, tier, seed,
                                  rule="(c) timed condition waits on streams that share a pool, replayed through the C05 LTS",
                                  sweep_kinds=(3,), sweep_n=10 if tier == "quick" else 60)
        cov["c_evaluations"] = covc.get("evaluations", 0)
        cov["c_events_replayed"] = covc.get("events_replayed", 0)
    return {"cov": cov, "ok": proof_b["ok"], "proof": proof_b}


# ====================================================================== combined
def run(tier, seed, replay):
    rep = vlib.Report(ID, tier, seed)
    rep.assumptions += [
        "C02(a): tools/asm2coq.py (one-to-one mnemonic->constructor translator, hard error on anything unknown) and the "
        "hand-written ISA semantics coq/Asm/X86.v (SDM, 16 mnemonic forms, 4-byte memory cells, stuck on unaligned access) are trusted",
        "C02(a): SysV ABI oracle for called C functions = relation FctxSpec.abi_ret (callee-saved registers, RSP, caller's stack "
        "area preserved; everything else arbitrary); validated on hardware by harness/h_c02_ctx.c",
        "C02(a): flags, instruction encodings, red zone, signals, #GP of ldmxcsr are not modelled; other architectures' .S files are outside",
    ]
    rp = json.load(open(replay)) if replay else None
    with vlib.Scratch(ID) as sc:
        vlib.copy_repo_src(sc)
        a = stage_a(rep, sc, tier, seed, replay=rp if (rp and rp.get("kind", "").startswith("c02a")) else None,
                    extra_targets=B_TARGETS)
        b = stage_b(rep, sc, tier, seed, replay=rp if (rp and not rp.get("kind", "").startswith("c02a")) else None)
        cov = dict(a["cov"])
        cov.update(b["cov"])
        proof = dict(a["proof"])
        pb = b.get("proof")
        if pb:
            proof["theorems"] = list(proof["theorems"]) + list(pb["theorems"])
            proof["discharged"] = proof["discharged"] + pb["discharged"] if (proof["ok"] and pb["ok"]) else 0
            proof["assumptions"] = list(proof["assumptions"]) + list(pb["assumptions"])
            proof["ok"] = proof["ok"] and pb["ok"]
        for k in ("evaluations", "distinct_nontrivial"):
            cov[k] = cov.get(k, 0) + cov.get("b_" + k, 0)
    return rep.finish(proof, cov)


pre_setup = setup_regenerate
COQ_TARGETS = TARGETS_A + B_TARGETS + ["Extract_C05.vo"]   # stage (c) replays through the C05 LTS
DRIVERS = ["sched", "c05"]
MANIFEST = {
    "text": MANIFEST_A["text"] + " (b) one stream at a time, on the scheduler LTS (Conc/Sched.v): a unit has exactly one structural "
            "place and RUNNING is stored only by a hand-over from Checked/Popped/Created/Blocked/Handoff (C11_run_needs_handover, "
            "C01_pop_exactly_once, C01_not_queued_elsewhere); every action that makes a unit available to another stream - push into "
            "a pool, READY or BLOCKED store, publication as a joiner in p_link - is enabled only after a callback was entered on its "
            "behalf, i.e. after its context was saved (a), or before it ever ran (C02_publish_only_after_save, "
            "C11_blocked_only_in_callback); tied by history conformance of directed-switch / suspend-resume / join scenarios on the "
            "real runtime (RUNNING store of a unit that the model does not have in a hand-over state, or a publication outside a "
            "callback, is a rejected history).",
    "note": MANIFEST_A["note"] + " " + schedprops.NOTE,
    "technique": "translator (x86-64 assembly -> Coq instruction lists) + Coq proofs over an executable ISA semantics; Coq invariants over the scheduler LTS + history conformance",
}
