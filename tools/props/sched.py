"""development entry: all scenario families against the Sched LTS (python3 tools/check.py SCHED)"""
import vlib, hist, schedgen
ID = "SCHED"

def gen(rng, tier):
    n = 30 if tier == "quick" else 300
    out = []
    for i in range(n):
        out.append(schedgen.gen_basic(rng)); out.append(schedgen.gen_suspend(rng)); out.append(schedgen.gen_join(rng))
        out.append(schedgen.gen_directed(rng)); out.append(schedgen.gen_lifecycle(rng)); out.append(schedgen.gen_migrate(rng)); out.append(schedgen.gen_migrate(rng, self_suspend=True))
    return out, {"scenarios": len(out)}

def run(tier, seed, replay):
    return hist.run_history_property(ID, "Properties_Sched_dev.v", ["Extract_Sched.vo"], "sched", "h_sched.c", gen, tier, seed, replay=replay)
