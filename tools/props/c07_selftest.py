"""C07 detection self-test: applies each mutant to a scratch copy of /repo/src under /var/tmp/c07-repo, runs
`tools/check.py C07 --tier quick` against it (VERIF_REPO), prints the verdict, removes the copy.
usage: python3 tools/props/c07_selftest.py [M1 M2 ...]   (no argument = all; ~40 s each)"""
import subprocess, shutil, os, sys, re, time
BASE="/var/tmp/c07-repo"
MUTS = [
 ("M1 push_tail: omit p_tail update (non-empty case)", "src/pool/thread_queue.h",
  "        p_thread->p_next = p_head;\n        p_queue->p_tail = p_thread;\n", "        p_thread->p_next = p_head;\n"),
 ("M2 remove: forget is_empty := 1", "src/pool/thread_queue.h",
  "    if (p_queue->num_threads == 1) {\n        p_queue->p_head = NULL;\n        p_queue->p_tail = NULL;\n        p_queue->num_threads = 0;\n        ABTD_atomic_release_store_int(&p_queue->is_empty, 1);\n    } else {\n        p_thread->p_prev->p_next = p_thread->p_next;\n        p_thread->p_next->p_prev = p_thread->p_prev;\n        if (p_thread == p_queue->p_head) {",
  "    if (p_queue->num_threads == 1) {\n        p_queue->p_head = NULL;\n        p_queue->p_tail = NULL;\n        p_queue->num_threads = 0;\n    } else {\n        p_thread->p_prev->p_next = p_thread->p_next;\n        p_thread->p_next->p_prev = p_thread->p_prev;\n        if (p_thread == p_queue->p_head) {"),
 ("M3 pop_tail returns the head", "src/pool/thread_queue.h",
  "        ABTI_thread *p_thread = p_queue->p_tail;\n", "        ABTI_thread *p_thread = p_queue->p_head;\n"),
 ("M4 RANDWS ignores POP_TAIL", "src/pool/randws.c",
  "#define POOL_CONTEXT_POP_TAIL (ABT_POOL_CONTEXT_OWNER_SECONDARY)", "#define POOL_CONTEXT_POP_TAIL ((ABT_pool_context)0)"),
 ("M5 remove: tail pointer not updated when the tail is removed", "src/pool/thread_queue.h",
  "        } else if (p_thread == p_queue->p_tail) {\n            p_queue->p_tail = p_thread->p_prev;\n        }", "        }"),
 ("M6 pop_head: successor's p_prev not updated", "src/pool/thread_queue.h",
  "            p_thread->p_prev->p_next = p_thread->p_next;\n            p_thread->p_next->p_prev = p_thread->p_prev;\n            p_queue->p_head = p_thread->p_next;",
  "            p_thread->p_prev->p_next = p_thread->p_next;\n            p_queue->p_head = p_thread->p_next;"),
 ("M7 fifo pop_many_shared pops one unit fewer (off by one)", "src/pool/fifo.c",
  "        size_t i;\n        for (i = 0; i < max_threads; i++) {\n            ABTI_thread *p_thread = thread_queue_pop_head(&p_data->queue);\n            if (!p_thread)\n                break;\n            threads[i] = ABTI_thread_get_handle(p_thread);\n        }\n        *num_popped = i;\n        ABTD_spinlock_release(&p_data->mutex);",
  "        size_t i;\n        for (i = 0; i + 1 < max_threads; i++) {\n            ABTI_thread *p_thread = thread_queue_pop_head(&p_data->queue);\n            if (!p_thread)\n                break;\n            threads[i] = ABTI_thread_get_handle(p_thread);\n        }\n        *num_popped = i;\n        ABTD_spinlock_release(&p_data->mutex);"),
 ("M8 RANDWS PUSH_HEAD mask lacks REVIVE_TO", "src/pool/randws.c",
  "     ABT_POOL_CONTEXT_OP_THREAD_REVIVE | ABT_POOL_CONTEXT_OP_THREAD_REVIVE_TO)", "     ABT_POOL_CONTEXT_OP_THREAD_REVIVE)"),
 ("M9 fifo push_shared without the lock (race only)", "src/pool/fifo.c",
  "    ABTD_spinlock_acquire(&p_data->mutex);\n    thread_queue_push_tail(&p_data->queue, p_thread);\n    ABTD_spinlock_release(&p_data->mutex);\n}\n\nstatic void pool_push_private",
  "    thread_queue_push_tail(&p_data->queue, p_thread);\n}\n\nstatic void pool_push_private"),
 ("M10 push_head (RANDWS): is_empty := 0 omitted", "src/pool/thread_queue.h",
  "        p_queue->num_threads = 1;\n        ABTD_atomic_release_store_int(&p_queue->is_empty, 0);\n    } else {\n        ABTI_thread *p_head = p_queue->p_head;\n        ABTI_thread *p_tail = p_queue->p_tail;\n        p_tail->p_next = p_thread;\n        p_head->p_prev = p_thread;\n        p_thread->p_prev = p_tail;\n        p_thread->p_next = p_head;\n        p_queue->p_head = p_thread;",
  "        p_queue->num_threads = 1;\n    } else {\n        ABTI_thread *p_head = p_queue->p_head;\n        ABTI_thread *p_tail = p_queue->p_tail;\n        p_tail->p_next = p_thread;\n        p_head->p_prev = p_thread;\n        p_thread->p_prev = p_tail;\n        p_thread->p_next = p_head;\n        p_queue->p_head = p_thread;"),
 ("M11 fifo_wait pop_many: lock released before the pops (race only)", "src/pool/fifo_wait.c",
  "        pthread_mutex_lock(&p_data->mutex);\n        size_t i;\n        for (i = 0; i < max_threads; i++) {\n            ABTI_thread *p_thread = thread_queue_pop_head(&p_data->queue);",
  "        pthread_mutex_lock(&p_data->mutex);\n        pthread_mutex_unlock(&p_data->mutex);\n        size_t i;\n        for (i = 0; i < max_threads; i++) {\n            ABTI_thread *p_thread = thread_queue_pop_head(&p_data->queue);"),
 ("M12 remove: is_in_pool left at 1", "src/pool/thread_queue.h",
  "\n    ABTD_atomic_release_store_int(&p_thread->is_in_pool, 0);\n    p_thread->p_prev = NULL;", "\n    p_thread->p_prev = NULL;"),
 ("M14 fifo_wait pool_pop: emptiness pre-check inverted for size 1 (pops only when >= 2 units)", "src/pool/fifo_wait.c",
  "    if (!thread_queue_is_empty(&p_data->queue)) {\n        pthread_mutex_lock(&p_data->mutex);\n        ABTI_thread *p_thread = thread_queue_pop_head(&p_data->queue);",
  "    if (thread_queue_get_size(&p_data->queue) > 1) {\n        pthread_mutex_lock(&p_data->mutex);\n        ABTI_thread *p_thread = thread_queue_pop_head(&p_data->queue);"),
 ("M15 acquire_spinlock_if_not_empty: gives up when the lock is busy (returns 1 = 'empty')", "src/pool/thread_queue.h",
  "            } else if (!ABTD_spinlock_is_locked(p_lock)) {\n                /* Lock seems released.  Let's try to take a lock again. */\n                break;\n            }",
  "            } else {\n                return 1;\n            }"),
 ("M13 fix patch applied (must turn the known finding off, exit 0)", None, None, None),
]
def main():
    only = sys.argv[1:] 
    for name, f, old, new in MUTS:
        tag = name.split()[0]
        if only and tag not in only: continue
        shutil.rmtree(BASE, ignore_errors=True)
        os.makedirs(BASE+"/test")
        shutil.copytree("/repo/src", BASE+"/src", ignore=shutil.ignore_patterns("*.o","*.lo",".libs",".deps","*.la","*.a"))
        shutil.copytree("/repo/test/leakcheck", BASE+"/test/leakcheck", ignore=shutil.ignore_patterns("*.o",".libs",".deps"))
        if f:
            p=os.path.join(BASE,f); s=open(p).read()
            assert s.count(old)>=1, (name, s.count(old))
            if tag=="M11":
                # fifo_wait has this text once (pool_pop_many)
                pass
            s=s.replace(old,new,1) if tag not in ("M2",) else s.replace(old,new,1)
            open(p,"w").write(s)
        else:
            subprocess.run(["patch","-p1","-d",BASE,"-i","/verif/fixes/c07-priv-pool-lock-init.patch"],check=True,stdout=subprocess.DEVNULL)
        t=time.time()
        env=dict(os.environ, VERIF_REPO=BASE)
        r=subprocess.run(["python3","/verif/tools/check.py","C07","--tier","quick"],env=env,cwd="/verif",capture_output=True,text=True)
        out=[l for l in r.stdout.split("\n") if l.startswith(("VIOLATION","KNOWN"))]
        det=[l for l in r.stderr.split("\n") if l.startswith("  ")][:4]
        print("== %s\n   rc=%d %.0fs %s" % (name, r.returncode, time.time()-t, " ; ".join(x[:150] for x in out)))
        for d in det: print("     "+d[:260])
        sys.stdout.flush()
    shutil.rmtree(BASE, ignore_errors=True)


if __name__ == "__main__":
    main()
