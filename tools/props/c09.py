"""C09 — eventuals and futures become ready exactly once and wake every waiter
(history conformance with the LTSs Conc/Eventual.v and Conc/Future.v + model-independent monitors)."""
import os
import vlib, hist

ID = "C09"
MANIFEST = {
    "text": "Theorems (Coq; every buffer size / every compartment count n = 0,1,2,..., with or without callback; every number of "
            "callers of every kind; every interleaving of the LTSs Conc/Eventual.v and Conc/Future.v whose labels are the ABT_VERIF "
            "hook records + the harness' begin/end/value records). Eventual: at most one set between two resets stores ready (ready "
            "iff exactly one did); that set copies its value and marks ready in one critical section before any waiter is woken; a "
            "set that finds it ready can only release and return ABT_ERR_EVENTUAL, changing nothing; at the very step that lets a "
            "waiter go the eventual is ready, and the word the caller then reads is the buffer content that set left (until the next "
            "reset); test reports `ready` as it is under the lock, i.e. never before a set has stored it and left its critical "
            "section; a queued caller is in the wait list and then the eventual is unready or the setter is still broadcasting; "
            "lock free and ready implies empty wait list; the broadcast can always take its next step. Future: counter = number of "
            "successful sets since creation/reset <= n and the array prefix holds their values in order, so counter = n exactly after "
            "the n-th successful set; a set finding counter >= n (every set when n = 0) returns ABT_ERR_FUTURE and changes nothing, a "
            "set finding counter < n cannot fail; callback count <= 1 and = 1 iff (counter = n, n > 0, callback registered) or the "
            "callback is running; at the callback step the counter is still n-1, no waiter of this generation has been let go, and "
            "the array equals the values of all n successful sets; every waiter let go and every `ready` verdict of test implies "
            "counter = n (hence callback done); no lost waiter as for eventuals. Tie: real multi-threaded executions (ULTs on 1-4 "
            "streams, external pthreads, tasklets; valid, late and oversized sets; waits, tests; resets at rendezvous points; n = "
            "0..8) are recorded by the hooks as a totally ordered history and replayed through the extracted step functions (every "
            "record must be enabled, every value - counter stored/loaded, value read, array seen by the callback, return code - "
            "must equal the model's); model-independent monitors on the harness' own records check values read = value set, error "
            "codes of late/oversized sets and tasklet waits, callback count/position/arguments, wait/test verdicts vs. set "
            "begin/end order, watchdog => stuck; extra runs inject a delay after every WAKE / CALLBACK / DATA / REL record. Fair "
            "termination is not claimed (can-take-next-step for the broadcast only).",
    "note": "Trusted: Coq kernel; extraction; the LTS abstraction (actions inside the object's spinlock are steps of the lock holder, "
            "SC memory; acquire/release annotations not checked); hook placement and the trace lock making the recorded order the "
            "real order. The memcpy into the eventual's buffer and `array[counter] = value` have no hook record: in the model they "
            "belong to the next recorded step of the same critical section; a misplaced copy is caught only through the values "
            "callers/callback read (directed-delay runs make that likely, not certain). Values are one machine word, sizes in "
            "words (nbytes not a multiple of 4, negative nbytes, NULL handles are not exercised). Client contract assumed as "
            "documented: reset only while no waiter is blocked; create/free are outside the model. Blocking itself (futex, context "
            "switch) is abstracted to pcs UQ/US/EW/ES (C02/C11). Ghost fields (generation, set values, callback count, generation "
            "stamp of returned waits) are defined by the *_ghost_meaning theorems.",
    "technique": "Coq proof of inductive invariants over two parametric LTSs + history conformance (recorded hook events replayed by the "
                 "extracted step functions) + model-independent monitors",
}

KINDS = "UUUUEET"


def gen_scenario(rng, big=False):
    """One scenario: ne eventuals, nf futures, workers of all caller kinds, 1..4 rounds separated by a
    rendezvous at which a coordinator resets some objects (quiescent point).  Per round and object the
    generator knows whether the object becomes ready (enough set attempts placed in non-blocking
    prefixes), so blocking waits are only issued where a wake-up is owed: a stuck run is a finding."""
    nes = rng.choice([0, 1, 2, 3])
    ne = rng.choice([0, 1, 1, 2])
    nf = rng.choice([0, 1, 1, 2])
    if ne + nf == 0:
        ne, nf = rng.choice([(1, 0), (0, 1), (1, 1)])
    caps = [rng.choice([0, 1, 1, 1, 2]) for _ in range(ne)]
    fns = [rng.choice([0, 1, 1, 2, 2, 3, 4, 5, 6, 7, 8]) for _ in range(nf)]
    fcbs = [rng.choice([0, 1, 1]) for _ in range(nf)]
    nwork = rng.randint(2, 8 if big else 6)
    kinds = [rng.choice(KINDS) for _ in range(nwork)]
    if all(k == "T" for k in kinds):
        kinds[0] = "U"
    rounds = rng.choice([1, 1, 2, 2, 3] + ([4] if big else []))
    ess = [rng.randint(0, nes) for _ in range(nwork)]
    toks = [[] for _ in range(nwork)]
    coord = []
    ckind = rng.choice("UUE")
    val = [0]

    def fresh():
        val[0] += 1
        return val[0]

    def delay():
        # let waiters get queued before the set that readies the object ("+" = yield first)
        return "+" * rng.choice([0, 0, 1, 2, 4])

    e_ready = [False] * ne
    f_count = [0] * nf
    for r in range(rounds):
        part = [t for t in range(nwork) if kinds[t] != "T" or r == 0]      # tasklets run once, at the start
        blockers = [t for t in part if kinds[t] != "T"]
        pre = {t: [] for t in part + ["c"]}
        suf = {t: [] for t in part + ["c"]}
        actors = part + (["c"] if rounds > 1 else [])
        # ---- eventuals
        for i in range(ne):
            will = e_ready[i]
            if not e_ready[i] and rng.random() < 0.8:
                t = rng.choice(actors)
                nb = rng.choice([0, 1, 1, 1, 2]) if caps[i] else 0
                nb = min(nb, caps[i])
                pre[t].append(delay() + "es%d:%d:%d" % (i, fresh(), nb))
                will = True
            # further sets: late (error), oversized (error before the lock), or racing with the first one
            for _ in range(rng.choice([0, 0, 1, 1, 2])):
                t = rng.choice(actors)
                nb = rng.choice([0, 1, 1, 2, 3])
                if not will and nb <= caps[i]:
                    nb = caps[i] + 1             # must not make an unready eventual ready behind the generator's back
                (pre if rng.random() < 0.5 else suf)[t].append("es%d:%d:%d" % (i, fresh(), nb))
            for _ in range(rng.choice([0, 1, 1, 2])):
                t = rng.choice(actors)
                (pre if rng.random() < 0.5 else suf)[t].append("et%d" % i)
            if will:
                for _ in range(rng.choice([0, 1, 2, 3, 4])):
                    # sometimes test right after the wait returned: must say ready
                    suf[rng.choice(actors)].append("ew%d" % i + (",et%d" % i if rng.random() < 0.3 else ""))
            else:
                for t in part:
                    if kinds[t] == "T" and rng.random() < 0.3:
                        suf[t].append("ew%d" % i)       # tasklet: error code, does not block
            e_ready[i] = will
        # ---- futures
        for i in range(nf):
            n = fns[i]
            need = n - f_count[i]
            will = need == 0 or rng.random() < 0.8
            if will:
                for _ in range(need):
                    pre[rng.choice(actors)].append(delay() + "fs%d:%d" % (i, fresh()))
                for _ in range(rng.choice([0, 0, 1, 1, 2])):        # late sets
                    t = rng.choice(actors)
                    (pre if rng.random() < 0.5 else suf)[t].append("fs%d:%d" % (i, fresh()))
                for _ in range(rng.choice([0, 1, 2, 3, 4])):
                    suf[rng.choice(actors)].append("fw%d" % i + (",ft%d" % i if rng.random() < 0.3 else ""))
                f_count[i] = n
            else:
                k = rng.randint(0, need - 1)
                for _ in range(k):
                    t = rng.choice(actors)
                    (pre if rng.random() < 0.5 else suf)[t].append("fs%d:%d" % (i, fresh()))
                for t in part:
                    if kinds[t] == "T" and rng.random() < 0.3:
                        suf[t].append("fw%d" % i)
                f_count[i] += k
            for _ in range(rng.choice([0, 1, 1, 2])):
                t = rng.choice(actors)
                (pre if rng.random() < 0.5 else suf)[t].append("ft%d" % i)
        # ---- assemble the round
        def mix(lst, yld):
            out = []
            for x in lst:
                while x.startswith("+"):
                    out.append(yld)
                    x = x[1:]
                out += x.split(",")
                if rng.random() < 0.25:
                    out.append(yld)
            return out
        for t in part:
            rng.shuffle(pre[t]); rng.shuffle(suf[t])
            y = "Y" if kinds[t] != "T" else "W"
            toks[t] += mix(pre[t], y) + mix(suf[t], y)
            if rounds > 1:
                toks[t].append("A%d" % r)
                if r + 1 < rounds and kinds[t] != "T":
                    toks[t].append("G%d" % r)
        if rounds > 1:
            rng.shuffle(pre["c"]); rng.shuffle(suf["c"])
            coord += mix(pre["c"], "Y") + mix(suf["c"], "Y")
            if r + 1 < rounds:
                coord.append("Q%d:%d" % (r, len(part)))
                for i in range(ne):
                    if rng.random() < 0.7:
                        coord.append("er%d" % i)
                        e_ready[i] = False
                for i in range(nf):
                    if rng.random() < 0.7:
                        coord.append("fr%d" % i)
                        f_count[i] = 0
                coord.append("R%d" % r)
    lines = ["SEED %d" % rng.randint(1, 10**9), "NES %d" % nes, "WATCHDOG 10"]
    if nes >= 2 and rng.random() < 0.3:
        lines.insert(2, "SHARED 1")   # the secondary streams serve one shared pool: blocked ULTs resume on other streams
    for i in range(ne):
        lines.append("EVENTUAL %d %d" % (i, caps[i]))
    for i in range(nf):
        lines.append("FUTURE %d %d %d" % (i, fns[i], fcbs[i]))
    for t in range(nwork):
        lines.append("THREAD %d %s %d : %s" % (t, kinds[t], ess[t], " ".join(toks[t] or ["W"])))
    if rounds > 1:
        lines.append("THREAD %d %s %d : %s" % (nwork, ckind, rng.randint(0, nes), " ".join(coord or ["W"])))
    return "\n".join(lines) + "\n"


def gen(rng, tier):
    n = 220 if tier == "quick" else 10000
    return [gen_scenario(rng, big=(tier != "quick" and i % 3 == 0)) for i in range(n)], {"scenarios": n}


# widen the window right after the steps at which a waiter could be let go too early:
# WAKE (12), the user callback (22), the ready / counter store (20), the lock release (3)
TARGET_KINDS = (12, 22, 20, 3)


def stage_extra(rep, sc, lib, cov, tier, seed):
    """Directed interleavings: the same kind of scenarios with a delay injected after every record of one
    kind, so that e.g. a waiter resumed on another stream really runs while the setter is still inside
    its critical section.  Monitor failures / crashes here are violations with a failing input."""
    import random
    hexe = os.path.join(sc, "harness_c09")
    drv = os.path.join(vlib.BUILD, "drv_c09")
    per = 30 if tier == "quick" else 1200
    total, bad, mism = 0, [], []
    for k in TARGET_KINDS:
        rng = random.Random(seed * 7919 + k)
        scs = [gen_scenario(rng) for _ in range(per)]
        res = hist.run_scenarios(hexe, drv, scs, sc, tag="directed%d" % k,
                                 env={"VH_TARGET_KIND": str(k), "VH_TARGET_US": "200"})
        total += len(res)
        bad += [r for r in res if r["status"] in ("MONFAIL", "CRASH")]
        mism += [r for r in res if r["status"] in ("MISMATCH", "DRIVER")]
    cov["directed_interleaving_runs"] = total
    cov["directed_kinds"] = list(TARGET_KINDS)
    if bad:
        r = bad[0]
        rep.violation("directed-monitor-%d.json" % seed,
                      {"kind": "history", "property": ID, "seed": seed, "scenarios": [r["scenario"]],
                       "monitor": r["mon_line"], "model": r["model_line"],
                       "history": hist.history_excerpt(r["history_path"], n=400),
                       "explanation": "a property monitor failed on a real execution of this scenario under a directed delay"},
                      found_input=True, text=r["mon_line"] + " | " + r["model_line"])
    elif mism and not cov.get("history_mismatches"):
        r = mism[0]
        rep.violation("directed-conformance-%d.json" % seed,
                      {"kind": "history", "property": ID, "seed": seed, "scenarios": [r["scenario"]],
                       "broken": "history conformance h_c09.c <-> LTS Eventual/Future under a directed delay",
                       "first_disagreement": r["model_line"],
                       "history_around": hist.history_excerpt(r["history_path"], None)},
                      found_input=False, text=r["model_line"])


def run(tier, seed, replay):
    return hist.run_history_property(
        ID, "Properties_C09.v", ["Properties_C09.vo", "Extract_C09.vo"], "c09", "h_c09.c", gen, tier, seed, replay=replay,
        rule="seeded scenarios: 0-2 eventuals (buffer of 0/1/2 words) and 0-2 futures (0..8 compartments, with and without "
             "callback); 2-8 callers (ULTs on 1-4 streams, external pthreads, tasklets for set/test and the failing wait) "
             "issuing set (valid, late, oversized), wait, test; 1-4 rounds separated by a rendezvous where a coordinator "
             "resets a subset of the objects; every history replayed through the extracted LTSs; model-independent "
             "monitors on the harness' own begin/end/value/callback records; plus directed-delay runs after "
             "WAKE/CALLBACK/DATA/REL records; non-trivial = all",
        extra_assumptions=["blocking (futex / context switch) is abstracted: a ULT between enqueue and the callback's "
                           "release is pc UQ; context-switch correctness is C02/C11",
                           "the memcpy into the eventual's buffer and the store array[counter] = value have no record "
                           "of their own; their position is observed only through the values callers read"],
        stage_extra=None if replay else stage_extra)
