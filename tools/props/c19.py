"""C19 — timed waits respect their deadline and never damage the waiter queue; blocking pool pops."""
import itertools
import vlib

ID = "C19"
MANIFEST = {
    "text": "Theorems (Coq, all action sequences, unbounded waiters): the pointer-level model of abti_waitlist.h "
            "(head/tail/next/prev/ready, untimed nodes never write prev, head test + successor prev fix-up + tail update of "
            "the timeout removal) never faults and represents the abstract queue: signal removes exactly the head, a timed-out "
            "waiter is unlinked wherever it stands and nothing happens if it was already woken, tail = last or NULL, every "
            "queued timed non-head node has prev = predecessor (C19_waitlist_refines, C19_waitlist_structure); TIMEDOUT iff "
            "not READY at the locked test which is reached only with now >= deadline, each SUCCESS consumes exactly one "
            "wake-up, a timed-out waiter is not queued afterwards (C19_timeout_verdict); pop_wait/pop_timedwait loops of "
            "fifo.c/randws.c/fifo_wait.c with concurrent pushers, consumers and clock: no unit lost or duplicated "
            "(C19_popwait_no_loss), a head-popping wait returns the oldest unit nobody else took (C19_popwait_fifo_order), NULL only after the deadline (C19_popwait_not_early) and only after the pool was seen empty (C19_popwait_null_saw_empty, C19_popwait_nonempty_never_null), return within one iteration once "
            "overdue (C19_popwait_returns, PARTIAL: real-time bounds of nanosleep/futex/pthread_cond_timedwait are outside "
            "the model). Tie: extracted models replayed against the real library under the virtual clock: 1..8 ULT/pthread "
            "timed/untimed waiters on one ABT_cond, exhaustive enqueue/signal/broadcast/timeout orders for small scopes + "
            "seeded larger ones (incl. a signal landing between a waiter's clock read and its locked test), locked "
            "white-box dump of the list after every action; pusher / other consumer / clock vs blocking pop for "
            "FIFO/FIFO_WAIT/RANDWS and the basic_wait scheduler sitting in pop_wait. Concurrency monitor supporting that "
            "correspondence (RC stage; NOT part of the Coq model, which takes 'release the mutex and join the wait list' of "
            "ABT_cond_timedwait as one lock-protected step — the atomic release-and-wait theorem itself is C05's): a "
            "pthread/ULT waiter loops lock; flag=0; timedwait(far virtual deadline, frozen clock); unlock while 1-2 pthreads "
            "spinning on ABT_mutex_trylock (plus 0-2 sleeping on the mutex) send exactly one signal per round as soon as the "
            "waiter has given the mutex up; a round that ends with ABT_ERR_COND_TIMEDOUT although ABT_cond_signal had "
            "returned before the clock was moved is a failing input.",
    "note": "Trusted: Coq kernel, extraction, the hand-written models (validated by the differential harness, not verified "
            "against the C text), the ABT_VERIF virtual-clock hook (ABTI_get_wtime, 0.5 ms futex re-check), gcc/glibc/futex. "
            "Modelled not verified: lock-protected sections are single steps; memory model SC; the ULT suspend/resume and "
            "futex sleep/wake mechanics are abstracted to the READY flag; monotone clock. The RC stage samples thread "
            "interleavings of the real library (hundreds of rounds in quick, thousands in thorough); it is a probabilistic "
            "monitor, not a proof, and it judges only rounds in which the signal was really issued before the deadline.",
}

ESK = ["e", "1", "2", "3"]


# ---------------------------------------------------------------- WL cases
def _enum(q, timed):
    """all maximal effective sequences over S / B / ('TO', k) on queue q"""
    if not q:
        yield []
        return
    yield ["B"]
    for rest in _enum(q[1:], timed):
        yield ["S"] + rest
    for k in q:
        if timed[k]:
            nq = tuple(x for x in q if x != k)
            for rest in _enum(nq, timed):
                yield [("TO", k)] + rest
    if timed[q[0]]:
        # the head's deadline passes and a signal lands before its locked test
        for rest in _enum(q[1:], timed):
            yield [("X", q[0])] + rest


def _realize(n, timed, kinds, seq, rng, extra_after=None):
    """turn an abstract sequence into a case line: deadlines follow the time-out order"""
    order = [a[1] for a in seq if isinstance(a, tuple)]
    dl = {}
    for i, k in enumerate(order):
        dl[k] = 8 * (i + 1) + rng.choice([0, 0, 1, 2, 3])
    far = 8 * (len(order) + 6)
    for k in range(n):
        if k not in dl:
            dl[k] = far + k
    specs = ["%s%s" % (kinds[k], "t" if timed[k] else "u") for k in range(n)]
    acts = ["E %d %d" % (k, dl[k]) for k in range(n)]
    for i, a in enumerate(seq):
        if isinstance(a, tuple):
            d = dl[a[1]]
            if rng.random() < 0.35 and d - 1 > 0:
                acts.append("T %d" % (d - 1))          # just before: nothing may happen
            acts.append("%s %d" % ("T" if a[0] == "TO" else "X", d if rng.random() < 0.6 else d + 1))
        else:
            acts.append(a)
        if extra_after is not None and i == extra_after:
            # one more waiter arrives after the structure has changed
            specs.append(rng.choice(ESK) + rng.choice("tu"))
            acts.append("E %d %d" % (n, far + 50))
    if extra_after is not None:
        acts += [rng.choice(["S", "B"]), "S"]
    elif rng.random() < 0.3:
        acts.append(rng.choice(["S", "B"]))             # on the empty list
    return "WL " + " ".join(specs) + " ; " + " , ".join(acts)


def gen_wl_exhaustive(rng, tier):
    cases = []
    nmax = 3 if tier == "quick" else 4
    stats = {}
    for n in range(1, nmax + 1):
        cnt = 0
        for timed in itertools.product([False, True], repeat=n):
            seqs = list(_enum(tuple(range(n)), timed))
            for seq in seqs:
                if n <= 2:
                    kind_sets = list(itertools.product(["e", "1"], repeat=n))
                elif tier == "quick":
                    kind_sets = [[rng.choice(ESK) for _ in range(n)]]
                else:
                    kind_sets = [[rng.choice(ESK) for _ in range(n)] for _ in range(3 if n == 4 else 4)]
                for kinds in kind_sets:
                    cases.append(_realize(n, timed, kinds, seq, rng))
                    cnt += 1
                # a late arrival after each prefix
                if n <= 3:
                    for j in range(len(seq)):
                        if tier == "quick" and n == 3 and rng.random() < 0.6:
                            continue
                        kinds = [rng.choice(ESK) for _ in range(n)]
                        cases.append(_realize(n, timed, kinds, seq, rng, extra_after=j))
                        cnt += 1
        stats["wl_exhaustive_n%d" % n] = cnt
    if tier == "quick":
        # a seeded sample of the n = 4 space
        allc = []
        for timed in itertools.product([False, True], repeat=4):
            for seq in _enum((0, 1, 2, 3), timed):
                allc.append((timed, seq))
        for timed, seq in rng.sample(allc, 150):
            cases.append(_realize(4, timed, [rng.choice(ESK) for _ in range(4)], seq, rng))
        stats["wl_sample_n4"] = 150
    return cases, stats


def gen_wl_random(rng, tier):
    """enqueues interleaved with signals / broadcasts / clock steps, restarts, deadlines in the past / near / far"""
    cases = []
    nrand = 260 if tier == "quick" else 6000
    for _ in range(nrand):
        n = rng.choice([1, 2, 3, 4, 5, 5, 6, 7, 8])
        specs = []
        for k in range(n):
            specs.append(rng.choice(ESK) + ("t" if rng.random() < 0.6 else "u"))
        timed = [s[1] == "t" for s in specs]
        status = ["-"] * n          # generator-side shadow, only to keep actions meaningful
        dl = [0] * n
        queue = []
        now = 0
        acts = []
        L = rng.choice([4, 6, 8, 10, 14, 20]) if tier == "quick" else rng.choice([6, 10, 16, 24, 32])
        for _ in range(L):
            r = rng.random()
            startable = [k for k in range(n) if status[k] != "w"]
            if (r < 0.45 or not queue) and startable:
                k = rng.choice(startable)
                kind = rng.random()
                if kind < 0.12:
                    d = max(0, now - rng.choice([0, 1, 5]))      # already past
                elif kind < 0.6:
                    d = now + rng.choice([1, 2, 3, 4, 6])         # near
                else:
                    d = now + rng.choice([40, 80, 400])           # far
                dl[k] = d
                acts.append("E %d %d" % (k, d))
                if timed[k] and d <= now:
                    status[k] = "r"
                else:
                    status[k] = "w"
                    queue.append(k)
            elif r < 0.62:
                acts.append("S")
                if queue:
                    status[queue.pop(0)] = "r"
            elif r < 0.68:
                acts.append("B")
                for k in queue:
                    status[k] = "r"
                queue = []
            elif r < 0.76 and queue and timed[queue[0]]:
                t = max(now, dl[queue[0]] + rng.choice([0, 0, 1]))
                now = t
                acts.append("X %d" % t)
                status[queue.pop(0)] = "r"
                for k in list(queue):
                    if timed[k] and dl[k] <= now:
                        queue.remove(k)
                        status[k] = "r"
            else:
                cand = [dl[k] for k in queue if timed[k]]
                if cand and rng.random() < 0.85:
                    t = rng.choice(cand) + rng.choice([-1, 0, 0, 0, 1])
                else:
                    t = now + rng.choice([1, 2, 5])
                t = max(t, now)
                now = t
                acts.append("T %d" % t)
                for k in list(queue):
                    if timed[k] and dl[k] <= now:
                        queue.remove(k)
                        status[k] = "r"
        cases.append("WL " + " ".join(specs) + " ; " + " , ".join(acts))
    return cases, {"wl_random": nrand}


# ---------------------------------------------------------------- PW cases
def gen_pw(rng, tier):
    cases = []
    S = 20
    scripts = [
        [], ["p"], ["i 1"], ["i 2"], ["i 3"], ["p", "p"], ["p", "p", "o"],
        ["a %d" % (S - 1)], ["a %d" % S], ["a %d" % (S + 1)], ["a %d" % S, "a %d" % (S + 1)],
        ["a %d" % (S - 1), "p"], ["a %d" % S, "p"], ["a %d" % (S + 1), "p"], ["p", "a %d" % (S + 1)],
        ["o"], ["o", "p"], ["i 2", "o"], ["i 1", "o", "p"], ["a 5", "o", "a 10", "p", "p", "o"],
        ["a %d" % (S + 1), "p", "p", "o"], ["o", "a %d" % (S + 4)],
    ]
    for pk in "FR":
        for op in "wt":
            tails = [0, 1] if (pk == "R" and op == "w") else [0]
            for tail in tails:
                for sc in scripts:
                    cases.append("PW %s %s %d %d ; %s" % (pk, op, S, tail, " , ".join(sc)))
    # the pop context is honoured only by randws.c pop_wait
    for hd in ("F w 20 1", "F t 20 1", "R t 20 1", "R w 20 1", "R w 20 0"):
        for sc in (["i 2"], ["i 3", "o"], ["p", "p"]):
            cases.append("PW %s ; %s" % (hd, " , ".join(sc)))
    # deadline already passed at the call (pop_timedwait with abstime in the past)
    for pk in "FR":
        cases.append("PW %s t -5 0 ; " % pk)
        cases.append("PW %s t -5 0 ; i 2" % pk)
        cases.append("PW %s w 0 0 ; a 1" % pk)
        cases.append("PW %s w 0 0 ; p" % pk)
    # fifo_wait: real time, tiny timeouts; only deterministic scripts
    for op in "wt":
        for sc, secs in (([], 3), (["i 1"], 3), (["i 2"], 3), (["p"], 2000), (["p", "p"], 2000),
                         (["i 1", "p"], 2000)):
            cases.append("PW W %s %d 0 ; %s" % (op, secs, " , ".join(sc)))
    # the basic_wait scheduler (src/sched/basic_wait.c) sitting in pop_wait(0.1 s)
    for pk in "FW":
        for sc in ([], ["p"], ["p", "p", "p"], ["a 1", "p", "a 2", "a 3", "p"], ["p", "a 9", "p", "p"]):
            if pk == "W":
                sc = [x for x in sc if not x.startswith("a")]
            cases.append("BW %s ; %s" % (pk, " , ".join(sc)))
    nfix = len(cases)
    nrand = 40 if tier == "quick" else 600
    for _ in range(nrand):
        pk = rng.choice("FR")
        op = rng.choice("wt")
        tail = 1 if (pk == "R" and op == "w" and rng.random() < 0.5) else 0
        secs = rng.choice([4, 8, 20])
        sc = []
        if rng.random() < 0.25:
            sc.append("i %d" % rng.choice([1, 2, 3]))
        now = 0
        for _ in range(rng.choice([1, 2, 3, 5, 7])):
            r = rng.random()
            if r < 0.4:
                sc.append("p")
            elif r < 0.55:
                sc.append("o")
            else:
                now = max(now, rng.choice([secs - 1, secs, secs + 1, now + 1, now + 3]))
                sc.append("a %d" % now)
        cases.append("PW %s %s %d %d ; %s" % (pk, op, secs, tail, " , ".join(sc)))
    return cases, {"pw_fixed": nfix, "pw_random": nrand}


# ---------------------------------------------------------------- RC cases
def gen_rc(rng, tier):
    """signal racing the waiter's mutex release inside ABT_cond_timedwait (concurrency monitor, see h_c19.c).
    RC <rounds> <waiter kind> <spinning signallers> <threads sleeping on the mutex>"""
    n = 1 if tier == "quick" else 20
    fixed = [(120, "e", 1, 1), (120, "1", 1, 1), (80, "e", 2, 1), (80, "2", 2, 1), (60, "e", 1, 0), (60, "3", 1, 0),
             (60, "e", 2, 0), (60, "1", 1, 2)]
    cases = ["RC %d %s %d %d" % (r * n, k, sp, bl) for (r, k, sp, bl) in fixed]
    nrand = 4 if tier == "quick" else 24
    for _ in range(nrand):
        cases.append("RC %d %s %d %d" % (rng.choice([40, 60, 80]) * n, rng.choice(ESK), rng.choice([1, 1, 2]),
                                         rng.choice([0, 1, 1, 2])))
    rounds = sum(int(c.split()[1]) for c in cases)
    return cases, {"rc_cases": len(cases), "rc_rounds": rounds}


def gen(rng, tier):
    c0, s0 = gen_rc(rng, tier)
    c1, s1 = gen_wl_exhaustive(rng, tier)
    c2, s2 = gen_wl_random(rng, tier)
    c3, s3 = gen_pw(rng, tier)
    s1.update(s2)
    s1.update(s3)
    s1.update(s0)
    s1["exhaustive"] = True
    # cheap cases first so that a broken build shows up at once; keep the order deterministic
    return c3 + c0 + c1 + c2, s1


def classify(case, impl, model):
    if impl.startswith("CRASH"):
        return "observable"
    if " | " in impl and " | " in model:
        return "observable" if impl.split(" | ")[0] != model.split(" | ")[0] else "internal"
    return "observable"


def nontrivial(case):
    if case.startswith("WL"):
        acts = case.split(";")[1]
        return acts.count("E") >= 2 and ("T" in acts or "S" in acts or "X" in acts)
    return True


def run(tier, seed, replay):
    return vlib.run_differential_property(
        ID, "Properties_C19.v", ["Properties_C19.vo", "Extract_C19.vo"], "c19", "h_c19.c",
        gen, classify, nontrivial, tier, seed, replay=replay, san=False,
        rule="WL: all maximal signal/broadcast/timeout orders for every timed/untimed pattern of n<=3 (quick) / n<=4 "
             "(thorough) waiters, each also with a late arrival after every prefix (n<=3), kinds (pthread / ULT on ES 1-3) "
             "exhaustive for n<=2 and seeded beyond; seeded sequences with interleaved enqueues, restarts and "
             "past/near/far deadlines for n<=8; non-trivial = >=2 enqueues and a signal or clock step. PW: fixed deadline-"
             "boundary scripts for FIFO/RANDWS (virtual clock) and FIFO_WAIT (real time) + seeded scripts. RC "
             "(concurrency monitor, not replayed on the Coq model; expected line = the constant 'every judged round "
             "returns ABT_SUCCESS'): 8 fixed + 4 (quick) / 24 (thorough) seeded configurations of waiter kind (pthread / "
             "ULT on ES 1-3) x 1-2 signallers spinning on ABT_mutex_trylock x 0-2 threads sleeping on the mutex, 40-120 "
             "rounds each (x20 in thorough); per round exactly one ABT_cond_signal, sent by a thread that obtained the "
             "mutex after the waiter gave it up inside ABT_cond_timedwait, under a frozen virtual clock with the deadline "
             "10^6 s ahead; lost = ABT_ERR_COND_TIMEDOUT in a round whose signal had returned before the clock was moved; "
             "a round in which no signaller got the mutex within 60 s is not judged and is repeated. Distinct = "
             "distinct case text.",
        extra_assumptions=["virtual clock hook ABTI_verif_hooks.clock (ABT_VERIF build of /repo's working tree, -O2)",
                           "white-box walk of ABTI_cond.waitlist under the cond's spinlock after every action",
                           "RC stage: thread interleavings are whatever the OS scheduler produces (no exhaustive "
                           "schedule exploration); the locked look at the cond's wait list only decides when the "
                           "harness moves the virtual clock, the verdict is the waiter's return code"])
