#!/bin/sh
# usage: mk_seed_worktree.sh <name>  -> /tmp/seed-<name>: a scratch git worktree of /repo HEAD, configured and built
set -e
D=/tmp/seed-$1
git -C /repo worktree remove --force $D 2>/dev/null || true
rm -rf $D
git -C /repo worktree add --detach $D HEAD >/dev/null 2>&1
# generated autotools input that is not tracked (configure, Makefile.in, m4 helpers, abt.h.in is tracked)
rsync -a --exclude .git --exclude '*.o' --exclude '*.lo' --exclude '*.la' --exclude '.libs' --exclude '.deps' \
      --exclude 'Makefile' --exclude 'config.status' --exclude 'config.log' --exclude 'libtool' --exclude 'stamp-h1' \
      --exclude 'src/include/abt_config.h' --exclude 'src/include/abt.h' --exclude '*.log' --exclude '*.trs' \
      --ignore-existing /repo/ $D/
cd $D
# remove test executables copied from /repo (no extension): rebuild them here
find test examples -type f -perm -u+x ! -name '*.sh' ! -name '*.c' ! -name '*.h' -exec sh -c 'file -b "$1" | grep -q "ELF\|libtool wrapper\|shell script" && rm -f "$1"' _ {} \; 2>/dev/null || true
./configure >/dev/null 2>&1
make -j16 >/dev/null 2>&1
make -C test -j16 check TESTS= >/dev/null 2>&1 || true
echo $D
