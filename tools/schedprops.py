"""Shared definitions of the properties decided on the scheduler LTS (Conc/Sched.v)."""
import hist, schedgen

SCHED_FILES = ["Properties_SchedPlace.v", "Properties_SchedLife.v", "Properties_SchedCount.v", "Properties_SchedJoin.v"]
SCHED_TARGETS = [f[:-2] + ".vo" for f in SCHED_FILES]
NOTE = ("Trusted: Coq kernel; extraction; the hand-written LTS Conc/Sched.v (unit states, pools, request bits, p_link, "
        "num_blocked with ghost multisets) validated by history conformance, not verified against the C text; hook placement "
        "and the trace lock (recorded order = real order); sequential consistency. Not modelled: streams (a unit has one "
        "structural place, so 'running on two streams' is excluded by conformance of the RUNNING stores, not by a theorem "
        "about streams), user-defined pools, stacked schedulers, scheduler replacement; fairness of schedulers and real time "
        "are assumptions (a scheduler that serves pools[0] first can starve pools[1..]: generated scenarios use one pool per stream).")
TECH = "Coq proof of inductive invariants over a parametric LTS of the scheduler + history conformance (recorded hook events replayed by the extracted step function)"


def mkgen(fams, nq, nt):
    def gen(rng, tier):
        n = nq if tier == "quick" else nt
        out = []
        for i in range(n):
            for f in fams:
                out.append(f(rng, big=(tier != "quick" and i % 4 == 0)))
        return out, {"scenarios": len(out), "families": [f.__name__ for f in fams]}
    return gen


def run(prop, name_re, fams, tier, seed, replay, rule, nq=24, nt=1500, known_patterns=None, files=None, extra_sweeps=(), sweep_filter=None):
    files = files or SCHED_FILES
    return hist.run_sched_property(prop, files, [f[:-2] + ".vo" for f in files], name_re, mkgen(fams, nq, nt), tier, seed,
                                   replay=replay, rule=rule, known_patterns=known_patterns, extra_sweeps=extra_sweeps,
                                   sweep_filter=sweep_filter)
